"""IEEE-754 binary64 symbolic values (z3 FloatingPoint theory, round-to-nearest-even) for the few obligations that are about
rounding itself.  An FSym behaves like a Python float inside the real code: arithmetic builds fp terms, comparisons return a SymBool
that the engine decides (forking when both outcomes are feasible).  In a concrete replay the symbol is the model's double."""
import struct
from fractions import Fraction
import z3
from . import symx
from .symx import SymBool

F64 = z3.Float64()
RM = z3.RNE()


def fval(x):
    if isinstance(x, FSym):
        return x.e
    if isinstance(x, bool):
        raise TypeError('bool in float arithmetic')
    if isinstance(x, (int, float)):
        return z3.FPVal(float(x), F64)
    if isinstance(x, Fraction):
        return z3.FPVal(float(x), F64)
    raise TypeError('cannot lift %r to binary64' % (x,))


class FSym:
    __slots__ = ('e',)

    def __init__(self, e):
        self.e = e

    def _b(self, o, f, swap=False):
        try:
            oe = fval(o)
        except TypeError:
            return NotImplemented
        return FSym(z3.simplify(f(RM, oe, self.e) if swap else f(RM, self.e, oe)))

    def __add__(self, o): return self._b(o, z3.fpAdd)
    def __radd__(self, o): return self._b(o, z3.fpAdd, True)
    def __sub__(self, o): return self._b(o, z3.fpSub)
    def __rsub__(self, o): return self._b(o, z3.fpSub, True)
    def __mul__(self, o): return self._b(o, z3.fpMul)
    def __rmul__(self, o): return self._b(o, z3.fpMul, True)
    def __truediv__(self, o): return self._b(o, z3.fpDiv)
    def __rtruediv__(self, o): return self._b(o, z3.fpDiv, True)
    def __neg__(self): return FSym(z3.fpNeg(self.e))
    def __pos__(self): return self

    def _c(self, o, f):
        try:
            oe = fval(o)
        except TypeError:
            return NotImplemented
        return SymBool(f(self.e, oe))

    def __lt__(self, o): return self._c(o, z3.fpLT)
    def __le__(self, o): return self._c(o, z3.fpLEQ)
    def __gt__(self, o): return self._c(o, z3.fpGT)
    def __ge__(self, o): return self._c(o, z3.fpGEQ)
    def __eq__(self, o): return self._c(o, z3.fpEQ)
    def __ne__(self, o): return self._c(o, lambda a, b: z3.Not(z3.fpEQ(a, b)))

    def __hash__(self):
        return 7          # equal doubles must hash alike; equality itself is decided by the solver

    def __bool__(self):
        return bool(SymBool(z3.Not(z3.fpIsZero(self.e))))

    def __float__(self):
        raise symx.Unencodable('float() of a symbolic binary64 value')

    def __repr__(self):
        return 'FSym(%s)' % self.e


def symbol(name, lo=None, hi=None):
    """a finite double in [lo, hi] (symbolic run) / the model's double (concrete replay)"""
    eng = symx.ENG
    if eng.mode != 'sym':
        if name in eng.vals:
            return float(Fraction(eng.vals[name]))
        return float(lo if lo is not None else 1.0)
    v = z3.FP(name, F64)
    eng.values[name] = v
    eng.assume(z3.Not(z3.fpIsNaN(v)))
    eng.assume(z3.Not(z3.fpIsInf(v)))
    if lo is not None:
        eng.assume(z3.fpGEQ(v, fval(lo)))
    if hi is not None:
        eng.assume(z3.fpLEQ(v, fval(hi)))
    return FSym(v)


def GT(a, b):
    if isinstance(a, FSym) or isinstance(b, FSym):
        return SymBool(z3.fpGT(fval(a), fval(b)))
    return a > b


def EQ(a, b):
    if isinstance(a, FSym) or isinstance(b, FSym):
        return SymBool(z3.fpEQ(fval(a), fval(b)))
    return a == b


def show(x):
    if isinstance(x, FSym):
        return str(z3.simplify(x.e))
    return repr(x)


# ---- standard model of floating-point arithmetic over the reals -------------------------------------------------------------
# fl(a op b) = (a op b)(1 + d), |d| <= u = 2^-53 (round to nearest, no overflow / underflow: the callers bound the ranges so that
# every intermediate stays in the normal range).  Sound for PROOFS about doubles; a counterexample may be spurious and is only
# reported if it reproduces on real doubles.
U = Fraction(1, 2 ** 53)


class RSym(symx.Sym):
    __slots__ = ()

    def _b(self, o, f, swap=False):
        r = symx.Sym._b(self, o, f, swap)
        if r is NotImplemented:
            return r
        if isinstance(o, (int, float)) and not isinstance(o, bool) and o == 0:
            return RSym(r.e)          # x + 0, x - 0, 0 + x are exact
        d = symx.ENG.var('delta', -U, U)
        return RSym(z3.simplify(r.e * (1 + d.e)))


def std_symbol(name, lo, hi):
    eng = symx.ENG
    x = eng.real(name, lo=lo, hi=hi)
    if eng.mode != 'sym':
        return float(x)
    return RSym(x.e)

"""Run one EoN simulator on one small configuration under the current engine.

cfg keys (all JSON): entry, graph, I0, R0, full, weights ('none'|'edge'|'node'|'both'),
tmax ('inf'|'sym'), ties, max_events, zero ('tau'|'gamma'|None), ic_style, pass_style, tags.
The graph structure, initial sets and flags are concrete (enumerated by the driver); every
number (rates, weights, tmin, tmax, delays, durations, uniform / exponential draws) is symbolic.
"""
import types
import numpy as np
import networkx as nx
from . import symx, graphs
from .symx import Sym, INF, EQ, LE, LT, AND, OR, NOT, IMPL
from .stubs import RandomStub, NPProxy, install_sim


class Run(types.SimpleNamespace):
    pass


def _ic_container(style, nodes):
    if style == 'list':
        return list(nodes)
    if style == 'tuple':
        return tuple(nodes)
    if style == 'set':
        return set(nodes)
    if style == 'frozenset':
        return frozenset(nodes)
    if style == 'array':
        return np.array(list(nodes))
    if style == 'dictkeys':
        return {n: None for n in nodes}.keys()
    if style == 'range':
        assert list(nodes) == list(range(nodes[0], nodes[-1] + 1))
        return range(nodes[0], nodes[-1] + 1)
    if style == 'single':
        assert len(nodes) == 1
        return nodes[0]
    if style == 'iter':
        return iter(list(nodes))
    raise ValueError(style)


def setup(cfg):
    """graph, symbolic parameters, stubs"""
    eng = symx.ENG
    import EoN
    import EoN.simulation as sim
    r = Run()
    r.cfg = cfg
    labels = cfg.get('labels')
    r.G = graphs.make(cfg['graph'], directed=cfg.get('directed', False), labels=labels)
    r.N = r.G.order()
    r.nodes = list(r.G.nodes())
    lab = (lambda i: labels[i]) if labels else (lambda i: i)
    r.I0 = [lab(i) for i in (cfg.get('I0') or [])]
    r.R0 = [lab(i) for i in cfg.get('R0', [])]
    zero = cfg.get('zero')
    r.tau = 0.0 if zero in ('tau', 'both') else eng.real('tau', lo=0, lo_strict=True)
    r.gamma = 0.0 if zero in ('gamma', 'both') else eng.real('gamma', lo=0, lo_strict=True)
    if cfg.get('tmin', 'sym') == 'sym':
        r.tmin = eng.real('tmin')
    else:
        r.tmin = cfg['tmin']
    if cfg.get('tmax', 'inf') == 'inf':
        r.tmax = INF
    elif str(cfg['tmax']).startswith('steps:'):
        r.tmax = r.tmin + int(cfg['tmax'].split(':')[1])
    else:
        r.tmax = eng.real('tmax')
        eng.assume(symx.lift(r.tmax) > symx.lift(r.tmin) if eng.mode == 'sym' else r.tmax > r.tmin)
        if cfg.get('tmax_within') is not None and eng.mode == 'sym':
            eng.assume(symx.lift(r.tmax) <= symx.lift(r.tmin) + cfg['tmax_within'])
    w = cfg.get('weights', 'none')
    r.ew = {}
    r.nw = {}
    r.tw_label = r.rw_label = None
    zw = cfg.get('zero_weight')      # allow weights >= 0 instead of > 0
    if w in ('edge', 'both'):
        r.tw_label = 'tw'
        for (u, v) in r.G.edges():
            x = eng.real('w_%s_%s' % (u, v), lo=0, lo_strict=not zw)
            r.G.edges[u, v]['tw'] = x
            r.ew[(u, v)] = x
            if not r.G.is_directed():
                r.ew[(v, u)] = x
    if w in ('node', 'both'):
        r.rw_label = 'rw'
        for u in r.G.nodes():
            x = eng.real('nw_%s' % (u,), lo=0, lo_strict=not zw)
            r.G.nodes[u]['rw'] = x
            r.nw[u] = x
    r.stub = RandomStub(ties=cfg.get('ties', False), max_expo=cfg.get('max_expo'),
                        truncate=cfg.get('truncate', False),
                        max_draws=cfg.get('max_draws', 16 * max(r.N, 2) if 'SIR' in cfg.get('entry', '') else 400),
                        max_uniform_per_step=cfg.get('max_unif', None if ('discrete' in cfg.get('entry', '') or 'percolat' in cfg.get('entry', '')) else 2 + cfg.get('R', 1)))
    install_sim(r.stub, NPProxy())
    # fast_SIR's constant-rate sampler: the real _truncated_exponential_ (int(t/T) -> mixed integer/real
    # terms) is verified against its contract 0 <= x < T once, in C01; elsewhere it is replaced by that contract
    global _ORIG_TRUNC
    if _ORIG_TRUNC is None:
        _ORIG_TRUNC = sim._truncated_exponential_
    if cfg.get('trunc_stub', True):
        def trunc(rate, T):
            x = symx.ENG.var('x', lo=0, lo_strict=not cfg.get('zero_delay'))
            if symx.ENG.mode == 'sym' and not symx._isinf(T):      # (T = inf: a plain exponential delay)
                symx.ENG.assume(symx.lift(x) < symx.lift(T))
            symx.ENG.log.append(('truncexp', rate, T, x))
            return x
        sim._truncated_exponential_ = trunc
    else:
        sim._truncated_exponential_ = _ORIG_TRUNC
    from . import gillaw
    gillaw.uninstall_weighted_choice_stub(sim)
    if cfg.get('wstub') == 'abstract':
        gillaw.install_abstract_weighted_set(sim)
    elif cfg.get('wstub'):
        gillaw.install_weighted_choice_stub(sim)
    r.EoN = EoN
    r.sim = sim
    return r


_ORIG_TRUNC = None


def trans_rate(r, u, v):
    return r.tau * (r.ew[(u, v)] if r.ew else 1)


def rec_rate(r, u):
    return r.gamma * (r.nw[u] if r.nw else 1)


def ic_kwargs(r, sir=True):
    cfg = r.cfg
    style = cfg.get('ic_style', 'list')
    kw = {}
    if cfg.get('rho') is not None:
        kw['rho'] = cfg['rho']
    if cfg.get('I0') is not None and not cfg.get('omit_I0'):
        kw['initial_infecteds'] = _ic_container(style, r.I0)
    if sir and cfg.get('R0'):
        kw['initial_recovereds'] = _ic_container(cfg.get('r_style', 'list'), r.R0)
    return kw


def call_entry(h, r, kind='no-exception'):
    """dispatch on cfg['entry']; returns the raw return value (or None after recording a failure)"""
    ret = _call_entry(h, r, kind)
    return check_shape(h, r, ret)


def check_shape(h, r, ret):
    if ret is None:
        return None
    full = r.cfg.get('full', False)
    sir = 'SIR' in r.cfg['entry']
    if full:
        if not hasattr(ret, 'node_history') or not hasattr(ret, 'summary'):
            h.fail('full-data-object-returned', {'got': type(ret).__name__})
            return None
    else:
        n = 4 if sir else 3
        if not isinstance(ret, (tuple, list)) or len(ret) != n:
            h.fail('arrays-returned', {'got': type(ret).__name__, 'len': len(ret) if hasattr(ret, '__len__') else None})
            return None
    return ret


def _call_entry(h, r, kind='no-exception'):
    cfg = r.cfg
    E = r.EoN
    entry = cfg['entry']
    full = cfg.get('full', False)
    f = getattr(E, entry)
    r.entry_fn = f
    kw = dict(tmin=r.tmin, tmax=r.tmax, return_full_data=full)
    sir = 'SIR' in entry
    if entry in ('Gillespie_SIR', 'Gillespie_SIS', 'fast_SIR', 'fast_SIS'):
        kw.update(ic_kwargs(r, sir))
        if r.tw_label:
            kw['transmission_weight'] = r.tw_label
        if r.rw_label:
            kw['recovery_weight'] = r.rw_label
        return h.call_must_succeed(kind, f, r.G, r.tau, r.gamma, **kw)
    if entry in ('fast_nonMarkov_SIR', 'fast_nonMarkov_SIS'):
        kw.update(ic_kwargs(r, sir))
        make_user_fxns(r, replay_from=getattr(r, 'replay_from', None))
        if cfg.get('joint'):
            kw['trans_and_rec_time_fxn'] = r.joint_fxn
        else:
            kw['trans_time_fxn'] = r.trans_time_fxn
            kw['rec_time_fxn'] = r.rec_time_fxn
        if cfg.get('fxn_args'):
            # each user function has its own tuple of extra arguments and checks that it is handed exactly that one
            if cfg.get('joint'):
                kw['trans_and_rec_time_fxn'] = expecting(r.joint_fxn, 2, JOINT_ARGS, 'trans_and_rec_time_fxn')
                kw['trans_and_rec_time_args'] = JOINT_ARGS
            else:
                kw['trans_time_fxn'] = expecting(r.trans_time_fxn, 3 if entry.endswith('SIS') else 2, TRANS_ARGS, 'trans_time_fxn')
                kw['rec_time_fxn'] = expecting(r.rec_time_fxn, 1, REC_ARGS, 'rec_time_fxn')
                kw['trans_time_args'] = TRANS_ARGS
                kw['rec_time_args'] = REC_ARGS
        return h.call_must_succeed(kind, f, r.G, **kw)
    if entry == 'discrete_SIR':
        kw.update(ic_kwargs(r, True))
        r.contacts = {}

        def rule(u, v, *args):
            # deterministic user rule: one engine-chosen boolean per ordered pair (the digraph of successful contacts)
            if cfg.get('fxn_args') and tuple(args) != DISCRETE_ARGS:
                raise WrongUserArgs('test_transmission was called with extra arguments %r, the caller passed args=%r' % (tuple(args), DISCRETE_ARGS))
            if cfg.get('no_transmission'):
                return False
            if (u, v) not in r.contacts:
                r.contacts[(u, v)] = bool(symx.ENG.choose(2, 'contact'))
                symx.ENG.log.append(('contact', u, v, r.contacts[(u, v)]))
            return r.contacts[(u, v)]
        r.rule = rule
        if cfg.get('test_recovery'):
            r.recov_calls = []

            def test_recovery(u):
                k = len([x for x in r.recov_calls if x[0] == u])
                ans = True if k >= cfg.get('max_keep', 1) else bool(symx.ENG.choose(2, 'recover?'))
                r.recov_calls.append((u, ans))
                return ans
            kw['test_recovery'] = test_recovery
        return h.call_must_succeed(kind, f, r.G, rule, DISCRETE_ARGS if cfg.get('fxn_args') else (), **kw)
    if entry in ('basic_discrete_SIR', 'percolation_based_discrete_SIR', 'basic_discrete_SIS'):
        kw.update(ic_kwargs(r, sir))
        r.p = symx.ENG.real('p', lo=0, hi=1) if cfg.get('p', 'sym') == 'sym' else cfg['p']
        return h.call_must_succeed(kind, f, r.G, r.p, **kw)
    raise ValueError(entry)


DISCRETE_ARGS = ('args-for-test_transmission', 0.25)
TRANS_ARGS, REC_ARGS, JOINT_ARGS = ('args-for-trans_time_fxn', 0.7), ('args-for-rec_time_fxn', 3.0), ('args-for-trans_and_rec_time_fxn',)


class WrongUserArgs(Exception):
    pass


def expecting(fn, nfixed, expect, name):
    def w(*a):
        if tuple(a[nfixed:]) != tuple(expect):
            raise WrongUserArgs('%s was called with extra arguments %r, the caller asked for %r' % (name, tuple(a[nfixed:]), tuple(expect)))
        return fn(*a[:nfixed])
    return w


def make_user_fxns(r, replay_from=None):
    """user-supplied delay / duration rules returning fresh symbols (or 0 / inf in boundary configs).
    With replay_from (an earlier Run) the same values are handed out again, per key in call order."""
    eng = symx.ENG
    cfg = r.cfg
    r.delays = {}     # (u,v) -> list of delay values handed out (in call order)
    r.durations = {}  # u -> list
    if replay_from is not None:
        src_dur = {k: list(v) for k, v in replay_from.durations.items()}
        src_del = {k: list(v) for k, v in replay_from.delays.items()}

        def rp_rec(u):
            v = src_dur[u].pop(0)
            r.durations.setdefault(u, []).append(v)
            return v

        def rp_trans(u, v, *a):
            d = src_del[(u, v)].pop(0)
            r.delays.setdefault((u, v), []).append(d)
            return list(d) if isinstance(d, list) else d
        r.rec_time_fxn = rp_rec
        r.trans_time_fxn = rp_trans
        r.joint_fxn = None
        return
    special = cfg.get('special', {})   # e.g. {"dur:1": "inf", "del:0-1": 0}
    sis = 'SIS' in cfg['entry']

    def rec_time_fxn(u):
        r.n_infections = getattr(r, 'n_infections', 0) + 1
        if cfg.get('max_infections') is not None and r.n_infections > cfg['max_infections']:
            raise symx.BoundReached('infection episodes > %d' % cfg['max_infections'])
        key = 'dur:%s' % (u,)
        if key in special:
            v = INF if special[key] == 'inf' else float(special[key])
        else:
            v = eng.var('D_%s' % (u,), lo=0, lo_strict=(sis or not cfg.get('zero_duration')))
        r.durations.setdefault(u, []).append(v)
        symx.ENG.log.append(('user_duration', u, v))
        return v

    def trans_time_fxn(u, v):
        key = 'del:%s-%s' % (u, v)
        if cfg.get('no_transmission'):
            d = INF
        elif key in special:
            d = INF if special[key] == 'inf' else float(special[key])
        else:
            d = eng.var('d_%s_%s' % (u, v), lo=0, lo_strict=not cfg.get('zero_delay'))
        r.delays.setdefault((u, v), []).append(d)
        symx.ENG.log.append(('user_delay', u, v, d))
        return d

    def trans_times_SIS(u, v, duration):
        # documented: list of delays, all before recovery; ascending (the code takes [0] as the first)
        k = 0 if cfg.get('no_transmission') else cfg.get('delays_per_pair', 1)
        n = 0 if k == 0 else eng.choose(k + 1, 'ndelays') if cfg.get('vary_ndelays', True) else k
        out = []
        prev = 0
        for i in range(n):
            d = eng.var('d_%s_%s' % (u, v), lo=0, lo_strict=True)
            if eng.mode == 'sym':
                eng.assume(symx.lift(d) > symx.lift(prev))
                eng.assume(symx.lift(d) < symx.lift(duration))
            out.append(d)
            prev = d
        r.delays.setdefault((u, v), []).append(list(out))
        symx.ENG.log.append(('user_delays', u, v, list(out)))
        return out

    def joint_SIR(u, sus):
        dur = rec_time_fxn(u)
        return {v: trans_time_fxn(u, v) for v in sus}, dur

    def joint_SIS(u, nbrs):
        dur = rec_time_fxn(u)
        out = {}
        for v in nbrs:
            out[v] = trans_times_SIS(u, v, dur)
        if cfg.get('joint') == 'recipients':
            out = {v: l for v, l in out.items() if l}
        return out, dur

    r.rec_time_fxn = rec_time_fxn
    r.trans_time_fxn = trans_times_SIS if sis else trans_time_fxn
    r.joint_fxn = joint_SIS if sis else joint_SIR


def outputs(r, ret):
    """normalise the return value: arrays dict and/or Simulation_Investigation"""
    full = r.cfg.get('full', False)
    sir = 'SIR' in r.cfg['entry']
    names = ['t', 'S', 'I', 'R'] if sir else ['t', 'S', 'I']
    o = Run(full=full, sir=sir, names=names)
    if full:
        o.sim = ret
        o.arrays = None
    else:
        o.sim = None
        o.arrays = {n: list(a) for n, a in zip(names, ret)}
        o.ncols = len(ret)
    return o


def result_struct(o, nodes):
    """JSON-able structure used for engine validation (symbolic vs concrete run)"""
    if o.full:
        s = o.sim
        d = {'hist': {str(n): [list(s.node_history(n)[0]), list(s.node_history(n)[1])] for n in nodes}}
        try:
            d['trans'] = [list(x) for x in s.transmissions()]
        except Exception:
            d['trans'] = None
        d['t'] = list(s.t())
        return d
    return {k: list(v) for k, v in o.arrays.items()}

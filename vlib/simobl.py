"""Obligations over simulator outputs, shared by C04 / C05 / C09 / C10 (mode-aware: symbolic or concrete)."""
import numpy as np
from . import symx
from .symx import Sym, INF, EQ, LE, LT, AND, OR, NOT, IMPL, show

SIR_MOVES = {(-1, 1, 0): 'S->I', (0, -1, 1): 'I->R'}
SIS_MOVES = {(-1, 1): 'S->I', (1, -1): 'I->S'}


def _isint(x):
    return isinstance(x, (int, np.integer)) and not isinstance(x, bool)


def wellformed_arrays(h, r, o, arrays, discrete=False, one_move=True, prefix=''):
    """C04 on (t, S, I[, R]) arrays.  Counts are concrete on every path; times are symbolic."""
    names = o.names
    t = arrays['t']
    cols = [arrays[n] for n in names[1:]]
    n = len(t)
    p = prefix
    if not all(len(c) == n for c in cols):
        h.fail(p + 'equal-lengths', {'lens': [len(t)] + [len(c) for c in cols]})
        return
    h.require(p + 'equal-lengths', True)
    if n == 0:
        h.fail(p + 'nonempty')
        return
    h.require(p + 't0=tmin', EQ(t[0], r.tmin), {'t0': show(t[0])})
    for i in range(n - 1):
        h.require(p + 'time-ordered', LE(t[i], t[i + 1]), {'i': i, 't': show(t[i:i + 2])})
    if r.tmax != INF:
        for i in range(n):
            if discrete:
                # never exceed tmax when tmax - tmin is a whole number of steps; in general each reported
                # step starts before tmax
                if i > 0:
                    h.require(p + 't<=tmax-discrete', LT(t[i - 1], r.tmax), {'i': i, 't': show(t[i])})
                    if str(r.cfg.get('tmax', '')).startswith('steps:'):
                        h.require(p + 't<=tmax-discrete', LE(t[i], r.tmax), {'i': i, 't': show(t[i])})
            else:
                h.require(p + 't<tmax', LT(t[i], r.tmax), {'i': i, 't': show(t[i])})
    ok_counts = True
    for i in range(n):
        row = [c[i] for c in cols]
        if not all(_isint(x) for x in row):
            h.fail(p + 'counts-int', {'row': show(row), 'i': i})
            ok_counts = False
            break
        if any(x < 0 for x in row):
            h.fail(p + 'counts-nonneg', {'row': [int(x) for x in row], 'i': i})
            ok_counts = False
        if sum(row) != r.N:
            h.fail(p + 'counts-sum-N', {'row': [int(x) for x in row], 'i': i, 'N': r.N})
            ok_counts = False
    if ok_counts:
        h.require(p + 'counts-int', True)
        h.require(p + 'counts-nonneg', True)
        h.require(p + 'counts-sum-N', True)
    if not ok_counts:
        return
    moves = SIR_MOVES if o.sir else SIS_MOVES
    if one_move:
        good = True
        for i in range(n - 1):
            d = tuple(int(c[i + 1]) - int(c[i]) for c in cols)
            if d not in moves:
                h.fail(p + 'one-legal-move', {'i': i, 'delta': d})
                good = False
                break
        if good:
            h.require(p + 'one-legal-move', True)
    if o.sir:
        S, R = arrays['S'], arrays['R']
        mono = all(S[i + 1] <= S[i] and R[i + 1] >= R[i] for i in range(n - 1))
        if mono:
            h.require(p + 'sir-monotone', True)
        else:
            h.fail(p + 'sir-monotone', {'S': [int(x) for x in S], 'R': [int(x) for x in R]})


def dies_out(h, r, o, arrays, prefix=''):
    """unbounded horizon and positive recovery rate => ends with no infected node"""
    if r.tmax == INF and not (isinstance(r.gamma, float) and r.gamma == 0.0):
        if int(arrays['I'][-1]) == 0:
            h.require(prefix + 'dies-out', True)
        else:
            h.fail(prefix + 'dies-out', {'I_last': int(arrays['I'][-1])})


def arrays_of_sim(o):
    s = o.sim
    a = {'t': list(s.t()), 'S': list(s.S()), 'I': list(s.I())}
    if o.sir:
        a['R'] = list(s.R())
    return a


def initial_state(h, r, o, prefix=''):
    """C05: row 0 / statuses at tmin equal the request"""
    nI, nR = len(r.I0), len(r.R0)
    want = {'S': r.N - nI - nR, 'I': nI}
    if o.sir:
        want['R'] = nR
    p = prefix
    if o.full:
        s = o.sim
        a = arrays_of_sim(o)
        got = {k: (int(a[k][0]) if _isint(a[k][0]) else show(a[k][0])) for k in want}
        if got == want:
            h.require(p + 'row0', True)
        else:
            h.fail(p + 'row0', {'got': got, 'want': want})
        h.require(p + 't0=tmin', EQ(a['t'][0], r.tmin), {'t0': show(a['t'][0])})
        st, v = h.call(s.get_statuses, None, r.tmin)
        if st == 'exc':
            h.fail(p + 'statuses-at-tmin:' + type(v).__name__, {'exception': repr(v)[:200]})
        else:
            wantst = {n: ('I' if n in r.I0 else 'R' if n in r.R0 else 'S') for n in r.nodes}
            if v == wantst:
                h.require(p + 'statuses-at-tmin', True)
            else:
                h.fail(p + 'statuses-at-tmin', {'got': {str(k): x for k, x in v.items()}, 'want': {str(k): x for k, x in wantst.items()}})
        # first history entries
        for n in r.nodes:
            ht, hs = s.node_history(n)
            w = 'I' if n in r.I0 else 'R' if n in r.R0 else 'S'
            if len(ht) == 0 or hs[0] != w:
                h.fail(p + 'history-first-entry', {'node': str(n), 'hist': [show(list(ht)), list(hs)], 'want': w})
            else:
                h.require(p + 'history-first-entry', EQ(ht[0], r.tmin), {'node': str(n), 't': show(ht[0])})
    else:
        a = o.arrays
        got = {k: (int(a[k][0]) if _isint(a[k][0]) else show(a[k][0])) for k in want}
        if got == want:
            h.require(p + 'row0', True)
        else:
            h.fail(p + 'row0', {'got': got, 'want': want})
        h.require(p + 't0=tmin', EQ(a['t'][0], r.tmin), {'t0': show(a['t'][0])})

"""Reference semantics (oracles), written independently of the implementation."""
import itertools
import z3
from .symx import lift


# ---- continuous-time Markov chains on node-status maps -------------------------------
class SIRChain:
    """network SIR / SIS CTMC: I-S edge (u,v) transmits at rate tau*w_uv, I node recovers at gamma*w_u"""

    def __init__(self, G, trans_rate, rec_rate, sis=False):
        self.G = G
        self.tr = trans_rate      # (u,v) -> rate term (python number or Sym)
        self.rr = rec_rate        # u -> rate term
        self.sis = sis

    def events(self, status):
        """enabled events -> rate : ('rec', u) and ('trans', u, v)"""
        ev = {}
        for u in self.G.nodes():
            if status[u] == 'I':
                ev[('rec', u)] = self.rr(u)
                for v in self.G.neighbors(u):
                    if v != u and status[v] == 'S':
                        ev[('trans', u, v)] = self.tr(u, v)
        return ev

    def apply(self, status, ev):
        s = dict(status)
        if ev[0] == 'rec':
            s[ev[1]] = 'S' if self.sis else 'R'
        else:
            s[ev[2]] = 'I'
        return s


class SpecChain:
    """generic simple-contagion chain: spontaneous A->B at rate r*nodeweight, induced (A,B)->(A,C) along
    edge direction at rate r*edgeweight"""

    def __init__(self, G, spont, induced):
        # spont: list of (A, B, rate, nodeweight_fn|None); induced: list of ((A,B),(A,C), rate, edgeweight_fn|None)
        self.G = G
        self.spont = spont
        self.induced = induced

    def events(self, status):
        ev = {}
        for (A, B, r, wf) in self.spont:
            for u in self.G.nodes():
                if status[u] == A:
                    key = ('spont', u, B)
                    ev[key] = _add(ev.get(key), r * (wf(u) if wf else 1))
        for ((A, B), (A2, C), r, wf) in self.induced:
            for u in self.G.nodes():
                if status[u] != A:
                    continue
                for v in self.G.neighbors(u):      # successors for a DiGraph
                    if v != u and status[v] == B:
                        key = ('ind', u, v, C)
                        ev[key] = _add(ev.get(key), r * (wf(u, v) if wf else 1))
        return ev

    def apply(self, status, ev):
        s = dict(status)
        if ev[0] == 'spont':
            s[ev[1]] = ev[2]
        else:
            s[ev[2]] = ev[3]
        return s


def _add(a, b):
    return b if a is None else a + b


def total(ev):
    t = 0
    for r in ev.values():
        t = t + r
    return t


# ---- first-passage percolation (C11) ---------------------------------------------------
def simple_paths(G, sources, target, removed):
    """all simple directed paths from any source to target avoiding removed nodes (lists of nodes)"""
    out = []

    def rec(path):
        u = path[-1]
        if u == target:
            out.append(list(path))
            return
        for v in G.neighbors(u):
            if v in path or v in removed or v in sources:
                continue
            path.append(v)
            rec(path)
            path.pop()
    for s in sources:
        if s in removed:
            continue
        rec([s])
    return out


# ---- plain SIS reference (C02 / C13) ---------------------------------------------------
# (written in the checks that use it, on engine values)


# ---- master equation as polynomials (C08) lives in odex ---------------------------------

"""Probability calculus on the path tree (DESIGN 2.1): read the law of the next event off the
real code's own comparisons against its uniform draws, and let z3 decide that it equals the
reference chain's rate/total for every parameter value.

A *step* is the part of the draw log between two exponential (clock) draws.  Its probability mass is
   prod over uniform draws u of (hi - lo)   x   prod over uniform choices 1/n   x   prod over weighted choices w_i/sum w
where lo/hi are the bounds the branch conditions put on u (each condition is proved linear in u by z3).
"""
import z3
from . import symx
from .symx import Sym, lift, Inconclusive


class LawError(Exception):
    pass


def split_steps(log):
    """-> (prelude entries, [step]) ; step = {'rate':..., 'e':..., 'draws':[entries]}"""
    prelude, steps, cur = [], [], None
    for ent in log:
        if ent[0] == 'expo':
            cur = {'rate': ent[1], 'e': ent[2], 'draws': []}
            steps.append(cur)
        elif cur is None:
            prelude.append(ent)
        else:
            cur['draws'].append(ent)
    return prelude, steps


class Prover:
    """validity of real-arithmetic facts under the base assumptions of a configuration"""

    def __init__(self, base, timeout_ms=60000):
        self.s = _Hyps()
        self.timeout_ms = timeout_ms
        for c in base:
            self.s.add(c)
        self.cache = {}
        self.queries = 0
        self.seconds = 0.0
        self._keep = []

    def valid(self, e, extra=()):
        e = z3.simplify(e)
        if z3.is_true(e):
            return True, None
        key = (e.get_id(), tuple(x.get_id() for x in extra))
        if key in self.cache:
            return self.cache[key]
        self._keep.append((e, extra))
        self.queries += 1
        t0 = symx._now()
        # divisions are eliminated: a/b -> q with q*b == a (b != 0 is guaranteed by the engine's
        # ZeroDivisionError fork at the division site); nlsat then sees polynomials only
        defs = []
        memo = {}
        goal = elim_div(e, defs, memo)
        hyps = [elim_div(c, defs, memo) for c in extra]
        # a fresh, non-incremental solver per query: z3 then runs its complete nlsat procedure
        # (the incremental core's nonlinear arithmetic is incomplete and answers unknown)
        sol = z3.Solver()
        sol.set('timeout', self.timeout_ms)
        for c in self.s.hyps:
            sol.add(elim_div(c, defs, memo))
        for c in hyps:
            sol.add(c)
        for (q, a, b) in defs:
            sol.add(z3.Implies(b != 0, q * b == a))
        sol.add(z3.Not(goal))
        r = sol.check()
        m = sol.model() if r == z3.sat else None
        self.seconds += symx._now() - t0
        if r == z3.unknown:
            raise Inconclusive('z3 unknown on law obligation: %s' % str(e)[:200])
        res = (r == z3.unsat, m)
        self.cache[key] = res
        return res


class _Hyps:
    def __init__(self):
        self.hyps = []

    def add(self, c):
        self.hyps.append(c)


_qcount = [0]


def elim_div(e, defs, memo):
    k = e.get_id()
    if k in memo:
        return memo[k]
    if z3.is_const(e) or z3.is_rational_value(e) or z3.is_int_value(e) or not z3.is_app(e):
        memo[k] = e
        return e
    ch = [elim_div(c, defs, memo) for c in e.children()]
    if e.decl().kind() == z3.Z3_OP_DIV:
        a, b = ch
        bs = z3.simplify(b)
        if z3.is_rational_value(bs) and bs.numerator_as_long() != 0:
            r = a / b
        else:
            _qcount[0] += 1
            q = z3.Real('q!%d' % _qcount[0])
            defs.append((q, a, b))
            r = q
    elif ch:
        r = e.decl()(*ch)
    else:
        r = e
    memo[k] = r
    return r


def _mentions(expr, var):
    vid = var.get_id()
    seen = set()
    stack = [expr]
    while stack:
        x = stack.pop()
        i = x.get_id()
        if i in seen:
            continue
        seen.add(i)
        if i == vid:
            return True
        stack.extend(x.children())
    return False


def uniform_interval(u, cmps, prover, extra=()):
    """bounds put on the uniform draw u by the logged comparisons.  Each comparison is
    `diff (op) 0` with the direction taken; z3 proves diff = d0 + c*u with sign(c) known."""
    uz = lift(u)
    lo, hi = z3.RealVal(0), z3.RealVal(1)
    used = 0
    for ent in cmps:
        _, diff, op, taken = ent
        if not _mentions(diff, uz):
            continue
        used += 1
        d0 = z3.simplify(z3.substitute(diff, (uz, z3.RealVal(0))))
        d1 = z3.simplify(z3.substitute(diff, (uz, z3.RealVal(1))))
        c = z3.simplify(d1 - d0)
        ok, _ = prover.valid(diff == d0 + c * uz, extra)
        if not ok:
            raise LawError('comparison not linear in the uniform draw: %s' % diff)
        pos, _ = prover.valid(c > 0, extra)
        if pos:
            sign = 1
        else:
            neg, _ = prover.valid(c < 0, extra)
            if not neg:
                raise LawError('sign of the coefficient of the uniform draw is not determined: %s' % c)
            sign = -1
        h = z3.simplify(-d0 / c)      # diff (op) 0  <=>  c*(u - h) (op) 0
        if op in ('eq', 'ne'):
            # equality with a continuous draw has probability 0 / 1: only the generic side carries mass
            if (op == 'eq') == taken:
                return z3.RealVal(0), z3.RealVal(0), used
            continue
        is_less = op in ('lt', 'le')           # diff < 0
        if sign < 0:
            is_less = not is_less              # u - h > 0
        upper = (is_less and taken) or ((not is_less) and (not taken))
        if upper:
            hi = h if hi is None else _min(hi, h, prover, extra)
        else:
            lo = h if lo is None else _max(lo, h, prover, extra)
    return lo, hi, used


def _min(a, b, prover, extra):
    ok, _ = prover.valid(a <= b, extra)
    if ok:
        return a
    ok, _ = prover.valid(b <= a, extra)
    if ok:
        return b
    return z3.If(a <= b, a, b)


def _max(a, b, prover, extra):
    ok, _ = prover.valid(a >= b, extra)
    if ok:
        return a
    ok, _ = prover.valid(b >= a, extra)
    if ok:
        return b
    return z3.If(a >= b, a, b)


def step_mass(draws, prover, extra=()):
    """probability mass of one step's branch (z3 term) and the list of things chosen"""
    mass = z3.RealVal(1)
    chosen = []
    cmps = [d for d in draws if d[0] == 'cmp']
    nrand = 0
    for d in draws:
        if d[0] == 'random':
            nrand += 1
            lo, hi, used = uniform_interval(d[1], cmps, prover, extra)
            ok, _ = prover.valid(z3.And(lo >= 0, hi <= 1), extra)
            if not ok:
                raise LawError('bounds of a uniform draw not within [0,1]: [%s, %s]' % (lo, hi))
            mass = mass * z3.If(hi >= lo, hi - lo, 0)
        elif d[0] == 'choice':
            mass = mass / len(d[1])
            chosen.append(('choice', d[1][d[2]]))
        elif d[0] == 'wchoice':
            items, weights, i = d[1], d[2], d[3]
            tot = z3.RealVal(0)
            for w in weights:
                tot = tot + lift(w)
            mass = mass * lift(weights[i]) / tot
            chosen.append(('wchoice', items[i]))
        elif d[0] in ('cmp',):
            continue
        elif d[0] in ('sample', 'binomial'):
            raise LawError('draw kind %s not supported in step_mass' % d[0])
    return z3.simplify(mass), chosen

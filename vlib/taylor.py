"""Taylor mode (DESIGN 2.2): run EoN's real right-hand sides, initial-condition builders and output tails on
truncated power series in t whose coefficients are exact polynomials in the symbolic parameters.  The flow stub
performs Picard iteration x <- x0 + int f(x) through the REAL right-hand side; z3 is asked, coefficient by
coefficient, whether two series can differ for any parameter value."""
from fractions import Fraction as Fr
import numpy as np
import z3

VARS = ['tau', 'gamma']
ORDER = [8]


def set_vars(names):
    VARS[:] = list(names)


def set_order(m):
    ORDER[0] = m


class Poly:
    """multivariate polynomial over Q in VARS"""
    __slots__ = ('c',)
    __array_priority__ = 20000

    def __init__(self, c=None):
        self.c = {k: v for k, v in (c or {}).items() if v != 0}

    @staticmethod
    def const(x):
        return Poly({(0,) * len(VARS): Fr(x)})

    @staticmethod
    def var(name):
        e = [0] * len(VARS)
        e[VARS.index(name)] = 1
        return Poly({tuple(e): Fr(1)})

    def __add__(s, o):
        if isinstance(o, (Series, np.ndarray)):
            return NotImplemented
        o = P(o)
        c = dict(s.c)
        for k, v in o.c.items():
            c[k] = c.get(k, 0) + v
        return Poly(c)
    __radd__ = __add__

    def __neg__(s):
        return Poly({k: -v for k, v in s.c.items()})

    def __sub__(s, o):
        if isinstance(o, (Series, np.ndarray)):
            return NotImplemented
        return s + (-P(o))

    def __rsub__(s, o):
        return P(o) - s

    def __mul__(s, o):
        if isinstance(o, (Series, np.ndarray)):
            return NotImplemented
        o = P(o)
        c = {}
        for k1, v1 in s.c.items():
            for k2, v2 in o.c.items():
                k = tuple(a + b for a, b in zip(k1, k2))
                c[k] = c.get(k, 0) + v1 * v2
        return Poly(c)
    __rmul__ = __mul__

    def __pow__(s, k):
        k = int(k)
        if k < 0:
            return Poly.const(1) / (s ** (-k))
        r = Poly.const(1)
        for _ in range(k):
            r = r * s
        return r

    def __truediv__(s, o):
        if isinstance(o, (Series, np.ndarray)):
            return NotImplemented
        o = P(o)
        if not o.is_const() or o.constval() == 0:
            raise NonConstantDivision('division of polynomials by a non-constant / zero polynomial')
        return s * Poly.const(Fr(1) / o.constval())

    def __rtruediv__(s, o):
        return P(o) / s

    def is_zero(s):
        return not s.c

    def is_const(s):
        return all(all(e == 0 for e in k) for k in s.c)

    def constval(s):
        return s.c.get((0,) * len(VARS), Fr(0))

    def __eq__(s, o):
        try:
            return (s - P(o)).is_zero()
        except TypeError:
            return False

    def __ne__(s, o):
        return not (s == o)
    __hash__ = None

    def __float__(s):
        if s.is_const():
            return float(s.constval())
        raise TypeError('symbolic polynomial')

    def to_z3(s, zv):
        t = z3.RealVal(0)
        for k, v in s.c.items():
            m = z3.RealVal(v)
            for e, x in zip(k, zv):
                for _ in range(e):
                    m = m * x
            t = t + m
        return t

    def __repr__(s):
        if not s.c:
            return '0'
        out = []
        for k, v in sorted(s.c.items()):
            mon = '*'.join('%s^%d' % (n, e) if e > 1 else n for n, e in zip(VARS, k) if e)
            out.append(('%s*%s' % (v, mon)) if mon else str(v))
        return ' + '.join(out)


class NonConstantDivision(Exception):
    pass


def P(x):
    if isinstance(x, Poly):
        return x
    if isinstance(x, (bool, np.bool_)):
        return Poly.const(int(x))
    if isinstance(x, (int, Fr)):
        return Poly.const(x)
    if isinstance(x, np.integer):
        return Poly.const(int(x))
    if isinstance(x, (float, np.floating)):
        f = Fr(float(x)).limit_denominator(10 ** 12)
        return Poly.const(f)
    raise TypeError(type(x))


class Series:
    """truncated power series in t: a[0] + a[1] t + ... + a[M] t^M, coefficients Poly"""
    __array_priority__ = 30000

    def __init__(s, a):
        M = ORDER[0]
        a = [P(x) for x in a][:M + 1]
        s.a = a + [Poly()] * (M + 1 - len(a))

    def __add__(s, o):
        if isinstance(o, np.ndarray):
            return NotImplemented
        o = S(o)
        return Series([x + y for x, y in zip(s.a, o.a)])
    __radd__ = __add__

    def __neg__(s):
        return Series([-x for x in s.a])

    def __sub__(s, o):
        if isinstance(o, np.ndarray):
            return NotImplemented
        return s + (-S(o))

    def __rsub__(s, o):
        return S(o) - s

    def __mul__(s, o):
        if isinstance(o, np.ndarray):
            return NotImplemented
        o = S(o)
        M = ORDER[0]
        r = [Poly() for _ in range(M + 1)]
        for i, x in enumerate(s.a):
            if x.is_zero():
                continue
            for j, y in enumerate(o.a):
                if i + j > M:
                    break
                if y.is_zero():
                    continue
                r[i + j] = r[i + j] + x * y
        return Series(r)
    __rmul__ = __mul__

    def inv(s):
        M = ORDER[0]
        a0 = s.a[0]
        if not (a0.is_const() and a0.constval() != 0):
            raise NonConstantDivision('series not invertible: leading coefficient %r' % (a0,))
        c = Fr(1) / a0.constval()
        b = [Poly.const(c)]
        for n in range(1, M + 1):
            acc = Poly()
            for k in range(1, n + 1):
                acc = acc + s.a[k] * b[n - k]
            b.append(-acc * Poly.const(c))
        return Series(b)

    def __truediv__(s, o):
        if isinstance(o, np.ndarray):
            return NotImplemented
        o = S(o)
        a0 = o.a[0]
        if not (a0.is_const() and a0.constval() != 0):
            return Poison('division by a series with leading coefficient %r' % (a0,))
        return s * o.inv()

    def __rtruediv__(s, o):
        a0 = s.a[0]
        if not (a0.is_const() and a0.constval() != 0):
            return Poison('1/series with leading coefficient %r' % (a0,))
        return S(o) * s.inv()

    def __pow__(s, k):
        if isinstance(k, np.ndarray):
            return NotImplemented
        if isinstance(k, (float, np.floating)) and float(k) == int(k):
            k = int(k)
        k = int(k)
        if k < 0:
            return S(1) / (s ** (-k))
        r = S(1)
        for _ in range(k):
            r = r * s
        return r

    def __eq__(s, o):
        try:
            o = S(o)
        except TypeError:
            return False
        return all((x - y).is_zero() for x, y in zip(s.a, o.a))

    def __ne__(s, o):
        return not (s == o)
    __hash__ = None

    def __float__(s):
        if all(x.is_zero() for x in s.a[1:]) and s.a[0].is_const():
            return float(s.a[0].constval())
        raise TypeError('series is not a constant')

    def integ(s):
        M = ORDER[0]
        return Series([Poly()] + [s.a[k] * Poly.const(Fr(1, k + 1)) for k in range(M)])

    def __array_ufunc__(self, ufunc, method, *inputs, **kw):
        import operator
        table = {'add': operator.add, 'subtract': operator.sub, 'multiply': operator.mul, 'true_divide': operator.truediv,
                 'divide': operator.truediv, 'negative': operator.neg, 'power': operator.pow, 'equal': operator.eq, 'not_equal': operator.ne}
        if method != '__call__' or ufunc.__name__ not in table:
            return NotImplemented
        f = table[ufunc.__name__]
        if any(isinstance(a, np.ndarray) for a in inputs):
            return np.frompyfunc(f, len(inputs), 1)(*[np.asarray(a, dtype=object) if isinstance(a, np.ndarray) else _obj(a) for a in inputs])
        return f(*[a.item() if isinstance(a, np.generic) else a for a in inputs])

    def __repr__(s):
        return 'Series(%s)' % ', '.join(repr(x) for x in s.a[:4])


def _obj(a):
    x = np.empty((), dtype=object)
    x[()] = a
    return x


class Poison:
    """value of a division that has a pole at t=0 (e.g. EoN's unused Yinv = 1/Y for Y(0)=0): harmless unless used"""

    def __init__(self, why):
        self.why = why

    def _r(self, *a):
        raise PoleUsed(self.why)
    __add__ = __radd__ = __sub__ = __rsub__ = __truediv__ = __rtruediv__ = __neg__ = __pow__ = _r

    def __mul__(self, o):
        # 0 * pole: EoN multiplies by masked zeros in places; a structural zero annihilates
        if isinstance(o, (int, float)) and o == 0:
            return 0
        if isinstance(o, Series) and o == 0:
            return 0
        raise PoleUsed(self.why)
    __rmul__ = __mul__


class PoleUsed(Exception):
    pass


def S(x):
    if isinstance(x, Series):
        return x
    if isinstance(x, Poison):
        raise PoleUsed(x.why)
    return Series([x])


def lift0(v):
    if isinstance(v, Series):
        return v
    if isinstance(v, Poison):
        raise PoleUsed(v.why)
    return S(v)


class TaylorFlow:
    """stands in for scipy.integrate: Picard iteration through the real right-hand side, exact to order M"""

    def __init__(self):
        self.calls = []
        self.starts = []      # the time at which each integration was started (must be the caller's tmin: autonomous systems)

    def ode(self, f, jac=None):
        """scipy.integrate.ode(f), f(t, y): the start time is an argument of set_initial_value and is recorded"""
        flow = self

        class _Ode:
            def set_integrator(self, *a, **k):
                return self

            def set_initial_value(self, y, t=0.0):
                flow.starts.append(t)
                self.rows = None
                self.y0 = y
                return self

            def integrate(self, t, step=False, relax=False):
                if self.rows is None:
                    self.rows = flow._solve(lambda X, tt: f(tt, X), self.y0, [None, None], (), record_start=False)
                return self.rows[1]

            def successful(self):
                return True
        return _Ode()

    def _solve(self, dfunc, X0, times, args, record_start=True):
        if record_start:
            self.starts.append(list(times)[0])
        M = ORDER[0]
        x0 = [lift0(v) for v in np.asarray(X0, dtype=object).reshape(-1)]
        x = list(x0)
        for it in range(M):
            V = np.empty(len(x), dtype=object)
            for i, c in enumerate(x):
                V[i] = c
            dV = dfunc(V, 0, *args)
            x = [a + lift0(d).integ() for a, d in zip(x0, list(dV))]
        n = len(times)
        out = np.empty((n, len(x)), dtype=object)
        for i in range(len(x)):
            out[0, i] = x0[i]
            for r in range(1, n):
                out[r, i] = x[i]
        self.calls.append((dfunc, x0, x, args))
        return out

    def odeint(self, dfunc, X0, times, args=(), **kw):
        return self._solve(dfunc, X0, times, args)

    def my_odeint(self, dfunc, V0, times, args=()):
        return self._solve(dfunc, V0, times, args)


class NPT:
    """numpy as seen by EoN.analytic in Taylor mode"""

    def __getattr__(self, n):
        return getattr(np, n)

    def zeros(self, shape, *a, **k):
        z = np.empty(shape, dtype=object)
        z.fill(0)
        return z

    def ones(self, shape, *a, **k):
        z = np.empty(shape, dtype=object)
        z.fill(1)
        return z

    def empty(self, shape, *a, **k):
        return self.zeros(shape)

    def zeros_like(self, x, *a, **k):
        return self.zeros(np.shape(x))

    def empty_like(self, x, *a, **k):
        return self.zeros(np.shape(x))

    def array(self, x, *a, **k):
        k.pop('dtype', None)
        try:
            return np.array(x, dtype=object)
        except ValueError:
            return np.array(x, *a, **k)


def exact_shift(arr, k, *a, **kw):
    arr = list(arr)
    n = len(arr)
    k = int(k)
    out = np.empty(n, dtype=object)
    for i in range(n):
        j = i - k
        out[i] = arr[j] if 0 <= j < n else 0
    return out


_ORIG = {}


def install(an):
    import builtins
    if not _ORIG:
        _ORIG.update(integrate=an.integrate, np=an.np, shift=an.shift, my=an._my_odeint_)
    flow = TaylorFlow()
    an.integrate = flow
    # (_my_odeint_ itself is executed and drives the integrate.ode emulation)
    an.np = NPT()
    an.shift = exact_shift
    an.float = lambda v=0.0: v if isinstance(v, (Series, Poly, Fr)) else builtins.float(v)
    return flow


def uninstall(an):
    if _ORIG:
        an.integrate, an.np, an.shift, an._my_odeint_ = _ORIG['integrate'], _ORIG['np'], _ORIG['shift'], _ORIG['my']
    if 'float' in an.__dict__:
        del an.__dict__['float']


def series_of(v, row=1):
    """the series of a returned output (row 1 of a 2-row solution), or of a scalar"""
    a = np.asarray(v, dtype=object)
    if a.ndim == 0:
        return lift0(a[()])
    return lift0(a.reshape(-1)[row] if a.ndim == 1 else a[row])


class CoeffProver:
    """z3 decides, coefficient by coefficient, whether two series can differ for some parameter value"""

    def __init__(self, assumptions=()):
        self.zv = [z3.Real(v) for v in VARS]
        self.s = z3.Solver()
        self.s.set('timeout', 60000)
        for a in assumptions:
            self.s.add(a)
        self.queries = 0

    def first_difference(self, A, B):
        """None if the series coincide to order M for all parameter values, else (order, model, a_k, b_k)"""
        A, B = lift0(A), lift0(B)
        for k, (a, b) in enumerate(zip(A.a, B.a)):
            self.queries += 1
            from . import odex as _odex
            _odex.STATS['queries'] += 1
            _odex.STATS['taylor_coefficient_queries'] += 1
            self.s.push()
            self.s.add(a.to_z3(self.zv) != b.to_z3(self.zv))
            r = self.s.check()
            m = self.s.model() if r == z3.sat else None
            self.s.pop()
            if r == z3.unknown:
                from .symx import Inconclusive
                raise Inconclusive('z3 unknown on a Taylor coefficient')
            if r == z3.sat:
                return (k, m, a, b)
        return None

"""Harness: per-path obligation context, per-config exploration worker, replay, driver."""
import os, sys, json, time, hashlib, traceback, multiprocessing, math, inspect
from collections import Counter, defaultdict
from fractions import Fraction
import numpy as np
import z3
from . import symx
from .symx import (Engine, ConcreteEngine, Sym, SymBool, Abort, BoundReached, Inconclusive,
                   ReplayDiverged, set_engine, show)
from .stubs import closed_world, UnmodelledRandomness

VERIF = os.path.dirname(os.path.dirname(os.path.abspath(__file__)))
REPO = os.environ.get('EON_REPO', '/repo')
_now = time.time


class PathCtx:
    """what a check's `run_path` sees: obligations, calls into the code under test"""

    def __init__(self, cfg, skip_kinds=()):
        self.cfg = cfg
        self.failures = []      # (kind, detail, values, decisions)
        self.counts = Counter()  # kind -> evaluated
        self.skip = set(skip_kinds)
        self.sample = None
        self.stats = Counter()   # solver work done outside the path solver (odex identity prover, Taylor coefficient prover)

    @property
    def eng(self):
        return symx.ENG

    @property
    def symbolic(self):
        return symx.ENG.mode == 'sym'

    def require(self, kind, cond, detail=None):
        """obligation: cond must hold for every value allowed by the path condition"""
        self.counts[kind] += 1
        if kind in self.skip:
            return True
        eng = symx.ENG
        if isinstance(cond, SymBool):
            cond = cond.e
        if eng.mode == 'sym':
            ok, model = eng.prove(cond)
            if not ok:
                self.failures.append((kind, _j(detail), eng.model_values(model), eng.decisions()))
                self.skip.add(kind)
            return ok
        ok = bool(cond)
        if not ok:
            self.failures.append((kind, _j(detail), None, None))
        return ok

    def record_failure(self, kind, detail, values):
        """a failed obligation decided outside the path solver (odex identity prover): values = model of the counterexample"""
        self.counts[kind] += 1
        if kind in self.skip:
            return
        self.failures.append((kind, _j(detail), dict(values or {}), symx.ENG.decisions() if symx.ENG.mode == 'sym' else None))
        self.skip.add(kind)

    def fail(self, kind, detail=None):
        """unconditional failure on this path (structural problem not depending on numbers)"""
        return self.require(kind, False, detail)

    def call(self, fn, *a, **k):
        """run the code under test; returns ('ok', value) or ('exc', exception)"""
        try:
            with closed_world():
                return 'ok', fn(*a, **k)
        except Exception as e:   # never BaseException: Abort / Inconclusive steer the engine
            return 'exc', e

    def call_must_succeed(self, kind, fn, *a, **k):
        st, v = self.call(fn, *a, **k)
        if st == 'exc':
            tb = traceback.extract_tb(v.__traceback__)
            where = ''
            for fr in reversed(tb):
                if '/EoN/' in fr.filename:
                    where = '%s:%d' % (os.path.basename(fr.filename), fr.lineno)
                    break
            self.fail('%s:%s' % (kind, type(v).__name__), {'exception': repr(v)[:200], 'at': where})
            return None
        return v


def _j(x):
    try:
        json.dumps(x)
        return x
    except TypeError:
        return show(x) if not isinstance(x, dict) else {str(k): _j(v) for k, v in x.items()}


# ---------------------------------------------------------------------------
def eval_under(model, x):
    """evaluate a result structure holding Syms under a z3 model -> plain python"""
    if isinstance(x, Sym):
        return float(symx._z3num(model.eval(x.e, model_completion=True)))
    if isinstance(x, np.ndarray):
        return [eval_under(model, v) for v in x.tolist()]
    if isinstance(x, (list, tuple)):
        return [eval_under(model, v) for v in x]
    if isinstance(x, dict):
        return {str(k): eval_under(model, v) for k, v in x.items()}
    if isinstance(x, np.generic):
        return x.item()
    return x


def plain(x):
    if isinstance(x, Fraction):
        return float(x)
    if isinstance(x, np.ndarray):
        return [plain(v) for v in x.tolist()]
    if isinstance(x, (list, tuple)):
        return [plain(v) for v in x]
    if isinstance(x, dict):
        return {str(k): plain(v) for k, v in x.items()}
    if isinstance(x, np.generic):
        return x.item()
    return x


def same(a, b, tol=1e-7):
    if isinstance(a, (list, tuple)) and isinstance(b, (list, tuple)):
        return len(a) == len(b) and all(same(x, y, tol) for x, y in zip(a, b))
    if isinstance(a, dict) and isinstance(b, dict):
        return a.keys() == b.keys() and all(same(a[k], b[k], tol) for k in a)
    if isinstance(a, bool) or isinstance(b, bool) or a is None or b is None or isinstance(a, str) or isinstance(b, str):
        return a == b
    if isinstance(a, (int, float)) and isinstance(b, (int, float)):
        if math.isinf(a) or math.isinf(b):
            return a == b
        return abs(a - b) <= tol * max(1.0, abs(a), abs(b))
    return a == b


def concrete_run(mod, cfg, values, decisions, exact=True):
    """re-run one path of a check against the real code on concrete numbers (exact rationals, or floats)"""
    prev = symx.ENG
    ce = ConcreteEngine(values, decisions, exact=exact)
    set_engine(ce)
    try:
        h = PathCtx(cfg)
        try:
            out = mod.run_path(h, cfg)
        except ReplayDiverged as e:
            return None, None, 'diverged: %s' % e
        except Abort as e:
            return None, None, 'abort: %s' % e
        return h, out, None
    finally:
        set_engine(prev)


MAX_PATHS_DEFAULT = 20000

# ---- statement coverage of the code under test (evidence only) ---------------------------------
# sys.monitoring (3.12): every line location reports once per process and is then disabled, so the cost is negligible.  The
# evidence lists the statements of the encoded functions that no explored path executed: code the bounded claim says nothing about.
_COV = {'new': set(), 'on': False}


def _cov_start():
    if _COV['on']:
        return
    _COV['on'] = True
    mon = getattr(sys, 'monitoring', None)
    if mon is None:
        return
    try:
        mon.use_tool_id(mon.COVERAGE_ID, 'verif-statement-coverage')
    except ValueError:
        return
    prefix = os.path.join(os.path.realpath(REPO), 'EoN') + os.sep

    def on_line(code, lineno):
        if code.co_filename.startswith(prefix):
            _COV['new'].add((code.co_filename, lineno))
        return mon.DISABLE
    mon.register_callback(mon.COVERAGE_ID, mon.events.LINE, on_line)
    mon.set_events(mon.COVERAGE_ID, mon.events.LINE)


def _cov_take():
    out = sorted(_COV['new'])
    _COV['new'] = set()
    return out


def statement_coverage(funcs, lines):
    import dis
    import linecache
    hit = set((os.path.realpath(f), l) for f, l in lines)
    total = 0
    missed = []
    per_fn = {}
    for fn in funcs:
        code = getattr(fn, '__code__', None)
        if code is None:
            continue
        todo, mine = [code], set()
        while todo:
            c = todo.pop()
            for _, ln in dis.findlinestarts(c):
                if ln is not None and ln > 0 and not (ln == c.co_firstlineno and not c.co_name.startswith('<')):
                    mine.add(ln)          # (the `def` line itself executes in the enclosing scope)
            todo.extend(k for k in c.co_consts if hasattr(k, 'co_code'))
        fname = os.path.realpath(code.co_filename)
        name = getattr(fn, '__qualname__', getattr(fn, '__name__', '?'))
        miss = sorted(l for l in mine if (fname, l) not in hit)
        total += len(mine)
        per_fn[name] = [len(mine) - len(miss), len(mine)]
        for l in miss:
            missed.append({'function': name, 'line': l, 'text': linecache.getline(fname, l).strip()[:100]})
    return {'statements_in_encoded_functions': total, 'executed_on_some_explored_path': total - len(missed),
            'per_function_executed_of_total': per_fn, 'never_executed': missed[:400], 'never_executed_count': len(missed)}


def explore_config(args):
    """worker: explore all paths of one configuration"""
    modname, cfg, opts = args
    sys.setrecursionlimit(10000)
    mod = __import__('checks.' + modname, fromlist=['x'])
    eng = Engine()
    set_engine(eng)
    _cov_start()
    t0 = _now()
    eng.deadline = symx._cpu() + opts.get('cfg_timeout', 300)
    eng.wall_deadline = t0 + 8 * opts.get('cfg_timeout', 300)
    res = {'cfg': cfg, 'paths': 0, 'aborted': Counter(), 'counts': Counter(), 'failures': [],
           'validated': 0, 'validation_mismatch': [], 'inconclusive': None, 'samples': [],
           'states': 0, 'transitions': 0, 'post': None, 'capped': False}
    failed_kinds = set()
    records = []
    known = load_known()
    prop = getattr(mod, 'PROPERTY', '')
    stop_early = False
    want_records = hasattr(mod, 'post')
    validate_every = opts.get('validate_every', 1)
    max_validate = opts.get('max_validate', 40)
    try:
        def fn(e):
            from . import odex as _odex
            h = PathCtx(cfg, skip_kinds=failed_kinds)
            before = Counter(_odex.STATS)
            try:
                out = mod.run_path(h, cfg)
            finally:
                now = Counter(_odex.STATS)
                now.subtract(before)
                h.stats.update({k: v for k, v in now.items() if v})
            return h, out
        for status, r in eng.explore(fn, max_paths=cfg.get('max_paths', opts.get('max_paths', MAX_PATHS_DEFAULT))):
            if status == 'cap':
                res['capped'] = True
                break
            if status == 'abort':
                res['aborted'][type(r).__name__ + ':' + str(r)[:60]] += 1
                if want_records and isinstance(r, BoundReached):
                    records.append((list(eng.log), False, None))
                continue
            h, out = r
            res['paths'] += 1
            res['counts'].update(h.counts)
            res.setdefault('stats', Counter()).update(h.stats)
            for (kind, detail, values, decisions) in h.failures:
                failed_kinds.add(kind)
                conf = replay_failure(mod, cfg, kind, values, decisions)
                res['failures'].append({'kind': kind, 'detail': detail, 'values': {k: str(v) for k, v in (values or {}).items()},
                                        'decisions': decisions, 'confirmed': conf})
                if conf.get('reproduced') and match_known(known, prop, cfg, kind) is None:
                    stop_early = True    # a new, replayed violation: no need to finish this configuration
            if stop_early:
                res['stopped_early'] = True
                break
            if want_records:
                records.append((list(eng.log), not getattr(h, 'truncated', False), out))
            # translation validation of the engine on this path
            if (res['paths'] - 1) % validate_every == 0 and res['validated'] < max_validate and not h.failures \
                    and getattr(mod, 'VALIDATE', True):
                model = eng.current_model()
                vals = eng.model_values(model)
                hc, outc, err = concrete_run(mod, cfg, vals, eng.decisions())
                if err is not None:
                    res['validation_mismatch'].append({'error': err, 'cfg': cfg})
                else:
                    exp = eval_under(model, out)
                    got = plain(outc)
                    if not same(exp, got):
                        res['validation_mismatch'].append({'expected': _j(exp), 'got': _j(got)})
                    elif [f for f in hc.failures if f[0] not in failed_kinds]:
                        res['validation_mismatch'].append({'concrete_failures': [f[0] for f in hc.failures]})
                    else:
                        res['validated'] += 1
            if len(res['samples']) < 1:
                res['samples'].append({'cfg': cfg, 'output': _j(show(out)), 'draws': [_j(show(list(ent))) for ent in eng.log if ent[0] != 'cmp'][:12],
                                       'path_condition_size': len(eng.pc)})
        if want_records and not res['capped'] and not stop_early:
            res['post'] = mod.post(cfg, records, eng)
    except Inconclusive as e:
        res['inconclusive'] = '%s: %s' % (type(e).__name__, str(e)[:300])
    except Exception as e:
        res['inconclusive'] = 'harness exception: ' + ''.join(traceback.format_exception(type(e), e, e.__traceback__))[-1500:]
    res['nchecks'] = eng.nchecks
    res['solver_s'] = eng.solver_s
    res['wall_s'] = _now() - t0
    res['aborted'] = dict(res['aborted'])
    res['stats'] = dict(res.get('stats', {}))
    res['counts'] = dict(res['counts'])
    res['lines'] = _cov_take()
    return res


def replay_failure(mod, cfg, kind, values, decisions):
    """concrete replay: does the real code, on floats, with the model's draws, violate `kind`?"""
    if hasattr(mod, 'replay_concrete'):
        try:
            r = mod.replay_concrete(cfg, kind, values, decisions)
        except Exception as e:
            return {'reproduced': False, 'why': 'replay_concrete raised %r' % (e,)}
        if r is not None:
            return r
    h, out, err = concrete_run(mod, cfg, values, decisions)
    if err is not None:
        return {'reproduced': False, 'why': err}
    kinds = [f[0] for f in h.failures]
    if kind in kinds:
        d = [f[1] for f in h.failures if f[0] == kind][0]
        # also on IEEE floats (may legitimately diverge when the model sits exactly on a tie)
        try:
            hf, outf, errf = concrete_run(mod, cfg, values, decisions, exact=False)
            fl = 'diverged' if errf else (kind in [f[0] for f in hf.failures])
        except BaseException as e:
            fl = 'error: %r' % (e,)
        return {'reproduced': True, 'concrete_detail': d, 'reproduced_in_floats': fl}
    return {'reproduced': False, 'why': 'concrete run satisfied the obligation', 'other_failures': kinds}


# ---------------------------------------------------------------------------
def load_known():
    p = os.path.join(VERIF, 'known_findings.json')
    if not os.path.exists(p):
        return []
    return json.load(open(p)).get('findings', [])


def match_known(known, prop, cfg, kind):
    tags = set(cfg.get('tags', []))
    for k in known:
        if k.get('status', 'open') != 'open':
            continue
        if k['property'] != prop:
            continue
        if k.get('entry') and k['entry'] != cfg.get('entry'):
            continue
        if kind != k.get('kind') and kind not in k.get('kinds', []):
            continue
        if not set(k.get('tags', [])) <= tags:
            continue
        if set(k.get('not_tags', [])) & tags:
            continue
        return k
    return None


def source_hashes(funcs):
    out = {}
    for f in funcs:
        try:
            src = inspect.getsource(f)
            out[f.__module__ + '.' + f.__qualname__] = hashlib.sha256(src.encode()).hexdigest()[:16]
        except Exception:
            out[str(f)] = 'n/a'
    return out


def run_check(modname, tier, seed, workers=None):
    """driver: returns exit code"""
    t0 = _now()
    mod = __import__('checks.' + modname, fromlist=['x'])
    prop = mod.PROPERTY
    cfgs = list(mod.configs(tier))
    opts = dict(getattr(mod, 'OPTS', {}).get(tier, {}))
    workers = workers or int(os.environ.get('VERIF_WORKERS', '16'))
    jobs = [(modname, c, opts) for c in cfgs]
    results = []
    if workers > 1 and len(jobs) > 1:
        ctx = multiprocessing.get_context('fork')
        with ctx.Pool(min(workers, len(jobs)), maxtasksperchild=8) as pool:
            for r in pool.imap_unordered(explore_config, jobs, chunksize=1):
                results.append(r)
    else:
        for j in jobs:
            results.append(explore_config(j))
    return finish(mod, prop, tier, seed, cfgs, results, t0)


def finish(mod, prop, tier, seed, cfgs, results, t0, extra_cov=None):
    known = load_known()
    violations = []
    known_hits = {}
    inconclusive = []
    counts = Counter()
    aborted = Counter()
    paths = validated = nchecks = 0
    solver_s = 0.0
    post_obl = post_ok = 0
    other = Counter()
    samples = []
    for r in results:
        paths += r['paths']
        validated += r['validated']
        nchecks += r['nchecks']
        solver_s += r['solver_s']
        counts.update(r['counts'])
        aborted.update(r['aborted'])
        other.update(r.get('stats', {}))
        if r['inconclusive']:
            inconclusive.append({'cfg': r['cfg'], 'why': r['inconclusive']})
        if r['capped']:
            inconclusive.append({'cfg': r['cfg'], 'why': 'path cap reached'})
        for m in r['validation_mismatch']:
            inconclusive.append({'cfg': r['cfg'], 'why': 'engine validation mismatch', 'detail': m})
        if len(samples) < 3 and r['samples']:
            samples.extend(r['samples'][:1])
        fails = list(r['failures'])
        if r['post']:
            post_obl += r['post'].get('obligations', 0)
            post_ok += r['post'].get('discharged', 0)
            for k, v in r['post'].get('counts', {}).items():
                counts[k] += v
            fails.extend(r['post'].get('failures', []))
            for w in r['post'].get('inconclusive', []):
                inconclusive.append({'cfg': r['cfg'], 'why': w})
        for f in fails:
            kf = match_known(known, prop, r['cfg'], f['kind'])
            if not f['confirmed'].get('reproduced'):
                inconclusive.append({'cfg': r['cfg'], 'why': 'counterexample did not reproduce on the real code',
                                     'kind': f['kind'], 'detail': f})
                continue
            if kf is not None:
                known_hits.setdefault(kf['id'], {'k': kf, 'n': 0})['n'] += 1
            else:
                violations.append((r['cfg'], f))
    # vacuity guard: every obligation kind the check declares must have been evaluated
    for kind in getattr(mod, 'MUST_EVALUATE', {}).get(tier, getattr(mod, 'MUST_EVALUATE', {}).get('quick', [])):
        if counts.get(kind, 0) == 0:
            inconclusive.append({'why': 'vacuity: obligation kind %s never evaluated' % kind})
    wall = _now() - t0
    obligations = sum(counts.values()) + 0
    ev = {
        'property_id': prop, 'tier': tier, 'seed': seed, 'level': 'other',
        'coverage': {
            'explanation': getattr(mod, 'EXPLANATION', ''),
            'technique': 'symbolic execution of the real Python code (symx/z3): every branch and every obligation decided by the SMT solver over all values of the symbolic inputs and random draws within the stated bounds',
            'functions_encoded': source_hashes(mod.functions()) if hasattr(mod, 'functions') else {},
            'bounds': getattr(mod, 'BOUNDS', {}).get(tier, ''),
            'configurations': len(cfgs),
            'paths_explored': paths,
            'paths_pruned_by_bound': dict(aborted),
            'obligations_by_kind': dict(counts),
            'obligations': obligations,
            'discharged': obligations - sum(1 for _ in violations) - sum(h['n'] for h in known_hits.values()),
            'solver_queries': nchecks + int(other.get('queries', 0)),
            'solver_queries_outside_path_solver': dict(other),
            'solver_seconds': round(solver_s, 2),
            'unknown_or_inconclusive': len(inconclusive),
            'traces_validated_against_impl': validated,
            'evaluations': paths,
            'distinct_nontrivial': paths,
            'rule': 'one evaluation = one feasible symbolic path (distinct path condition) of one configuration; all are distinct by construction of the DFS',
            'samples': samples[:3],
            'known_findings_hit': {k: v['n'] for k, v in known_hits.items()},
            'exhaustive': not inconclusive,
        },
        'assumptions': list(getattr(mod, 'ASSUMPTIONS', [])),
        'wall_s': round(wall, 2),
        'violations': len(violations),
    }
    if hasattr(mod, 'functions'):
        try:
            lines = set()
            for r in results:
                lines.update(tuple(x) for x in r.get('lines', []))
            ev['coverage']['statement_coverage'] = statement_coverage(mod.functions(), lines)
        except Exception as e:      # evidence only: never decides the verdict
            ev['coverage']['statement_coverage'] = {'error': repr(e)[:200]}
    if extra_cov:
        ev['coverage'].update(extra_cov)
    # runs against another tree than /repo (seeded-change experiments) must not overwrite the evidence of the real tree
    evdir = os.environ.get('VERIF_EVIDENCE_DIR') or os.path.join(VERIF, 'evidence' if os.path.realpath(REPO) == '/repo' else 'evidence-other-tree')
    os.makedirs(evdir, exist_ok=True)
    with open(os.path.join(evdir, prop + '.json'), 'w') as f:
        json.dump(ev, f, indent=1, default=str)
    print("%s tier=%s configs=%d paths=%d obligations=%d z3-queries=%d solver=%.1fs wall=%.1fs validated=%d" % (
        prop, tier, len(cfgs), paths, obligations, nchecks, solver_s, wall, validated))
    for kid, h in sorted(known_hits.items()):
        print("KNOWN-FINDING: property=%s %s [%s, %d occurrence(s)]" % (prop, h['k']['what'], kid, h['n']))
    code = 0
    if violations:
        os.makedirs(os.path.join(VERIF, 'replays'), exist_ok=True)
        seen = set()
        for cfg, f in violations:
            sig = (cfg.get('entry'), f['kind'])
            if sig in seen:
                continue
            seen.add(sig)
            blob = {'property': prop, 'module': mod.__name__.split('.')[-1], 'cfg': cfg, 'kind': f['kind'], 'detail': f['detail'],
                    'values': f.get('values'), 'decisions': f.get('decisions'), 'confirmed': f['confirmed']}
            hsh = hashlib.sha256(json.dumps(blob, sort_keys=True, default=str).encode()).hexdigest()[:10]
            path = os.path.join(VERIF, 'replays', '%s-%s.json' % (prop, hsh))
            with open(path, 'w') as fh:
                json.dump(blob, fh, indent=1, default=str)
            print("VIOLATION property=%s replay=%s" % (prop, path))
            print("  entry=%s kind=%s detail=%s" % (cfg.get('entry'), f['kind'], json.dumps(f['detail'], default=str)[:300]))
        code = 1
    if inconclusive:
        for w in inconclusive[:10]:
            print("INCONCLUSIVE: %s" % json.dumps(w, default=str)[:600])
        if code == 0:
            code = 2
    return code


def replay_file(path):
    blob = json.load(open(path))
    mod = __import__('checks.' + blob['module'], fromlist=['x'])
    if blob.get('values') is None:
        print("replay: this violation has no per-path values (cross-path obligation); re-run the check")
        return 2
    vals = {k: Fraction(v) for k, v in blob['values'].items()}
    dec = [tuple(d) for d in blob['decisions']]
    h, out, err = concrete_run(mod, blob['cfg'], vals, dec)
    if err:
        print("replay diverged:", err)
        return 2
    print("inputs:", {k: float(v) for k, v in vals.items()})
    print("concrete output:", json.dumps(_j(plain(out)), default=str)[:2000])
    kinds = [f[0] for f in h.failures]
    for f in h.failures:
        print("FAILED obligation %s: %s" % (f[0], json.dumps(f[1], default=str)[:500]))
    if blob['kind'] in kinds:
        print("VIOLATION property=%s replay=%s" % (blob['property'], path))
        return 1
    print("obligation %s holds on this replay" % blob['kind'])
    return 0

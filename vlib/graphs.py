"""Small-graph vocabulary (DESIGN section 4).  Discrete structure is enumerated, numbers are symbolic."""
import itertools
import networkx as nx

G3 = {
    'K1': (1, []),
    '2K1': (2, []),
    'K2': (2, [(0, 1)]),
    '3K1': (3, []),
    'K2+K1': (3, [(0, 1)]),
    'P3': (3, [(0, 1), (1, 2)]),
    'K3': (3, [(0, 1), (1, 2), (0, 2)]),
}
G4 = {
    'P4': (4, [(0, 1), (1, 2), (2, 3)]),
    'S3': (4, [(0, 1), (0, 2), (0, 3)]),
    'C4': (4, [(0, 1), (1, 2), (2, 3), (3, 0)]),
    'paw': (4, [(0, 1), (1, 2), (0, 2), (2, 3)]),
    'K4': (4, [(a, b) for a in range(4) for b in range(a + 1, 4)]),
    'diamond': (4, [(0, 1), (1, 2), (2, 3), (3, 0), (0, 2)]),
}
EXTRA = {
    'K2loop': (2, [(0, 1), (0, 0)]),          # self-loops: a node is not its own contact
    'P3loop': (3, [(0, 1), (1, 2), (1, 1)]),
    'irr5': (5, [(0, 1), (1, 2), (2, 3), (1, 3), (3, 4)]),
    'paw+K1': (5, [(0, 1), (1, 2), (0, 2), (2, 3)]),
    'P5': (5, [(0, 1), (1, 2), (2, 3), (3, 4)]),
    'S4': (5, [(0, 1), (0, 2), (0, 3), (0, 4)]),
    'T5': (5, [(0, 1), (1, 2), (1, 3), (3, 4)]),
    'K33': (6, [(a, b) for a in range(3) for b in range(3, 6)]),
    'C5': (5, [(i, (i + 1) % 5) for i in range(5)]),
    'C6': (6, [(i, (i + 1) % 6) for i in range(6)]),
    'cube': (8, [(a, b) for a in range(8) for b in range(a + 1, 8) if bin(a ^ b).count('1') == 1]),
}
ALL = {}
ALL.update(G3)
ALL.update(G4)
ALL.update(EXTRA)


def make(name, directed=False, labels=None, order=None):
    """build the named graph; `labels` maps 0..n-1 to arbitrary hashables; `order` = insertion order of nodes"""
    if isinstance(name, (list, tuple)) and len(name) == 2 and not isinstance(name, str):
        n, edges = name
    elif name.startswith('D:'):
        # directed graph encoded as D:n:ab,cd,...
        _, n, es = name.split(':')
        n = int(n)
        edges = [(int(e[0]), int(e[1])) for e in es.split(',') if e]
        directed = True
    else:
        n, edges = ALL[name]
    G = nx.DiGraph() if directed else nx.Graph()
    lab = (lambda i: labels[i]) if labels else (lambda i: i)
    for i in (order if order is not None else range(n)):
        G.add_node(lab(i))
    for (a, b) in edges:
        G.add_edge(lab(a), lab(b))
    return G


def subsets(n, min_size=0, max_size=None):
    max_size = n if max_size is None else max_size
    for k in range(min_size, max_size + 1):
        for c in itertools.combinations(range(n), k):
            yield list(c)


def initial_conditions(n, with_recovered=True, max_infected=None):
    """all (I0, R0) with I0 nonempty, disjoint"""
    for I0 in subsets(n, 1, max_infected):
        rest = [i for i in range(n) if i not in I0]
        if with_recovered:
            for k in range(0, len(rest) + 1):
                for R0 in itertools.combinations(rest, k):
                    yield I0, list(R0)
        else:
            yield I0, []


def automorphism_reduced_ics(name, with_recovered=True, max_infected=None):
    """initial conditions up to graph automorphism (keeps the enumeration small but complete)"""
    n, edges = ALL[name]
    G = make(name)
    autos = []
    for perm in itertools.permutations(range(n)):
        if all(G.has_edge(perm[a], perm[b]) for a, b in edges):
            autos.append(perm)
    seen = set()
    for I0, R0 in initial_conditions(n, with_recovered, max_infected):
        key = min((tuple(sorted(p[i] for i in I0)), tuple(sorted(p[i] for i in R0))) for p in autos)
        if key in seen:
            continue
        seen.add(key)
        yield I0, R0


def digraphs(n):
    """all labelled digraphs on n nodes up to isomorphism"""
    pairs = [(a, b) for a in range(n) for b in range(n) if a != b]
    seen = set()
    for k in range(len(pairs) + 1):
        for es in itertools.combinations(pairs, k):
            key = min(tuple(sorted((p[a], p[b]) for a, b in es)) for p in itertools.permutations(range(n)))
            if key in seen:
                continue
            seen.add(key)
            yield 'D:%d:%s' % (n, ','.join('%d%d' % e for e in es))

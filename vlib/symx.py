"""symx -- path-exploring symbolic executor for the *unmodified* EoN Python code.

Numeric inputs and random draws are z3 Reals wrapped in `Sym`; every Python
branch on a symbolic condition is decided by z3 (`Engine.branch`); all feasible
paths are explored depth-first by re-execution with a decision prefix.

The same harness code can be run in *concrete* mode (`ConcreteEngine`): every
symbol is then a Python float taken from a z3 model, every engine choice is
replayed from the recorded trace and the real code runs on ordinary floats.
That is how counterexamples are replayed before they are reported, and how the
engine itself is validated (translation validation of symx against CPython).
"""
import math, time, itertools, operator
from fractions import Fraction
import z3
import numpy as np

INF = float('inf')
_now = time.time   # captured before closed_world() poisons time.*
_cpu = time.process_time   # budgets are counted in CPU seconds of the worker, so that machine load does not turn a pass into 'inconclusive'


class Abort(BaseException):
    """path abandoned (bound reached / infeasible) -- BaseException on purpose"""


class BoundReached(Abort):
    pass


class Inconclusive(BaseException):
    """solver said unknown / engine cannot encode -> exit code 2, never success"""


class Unencodable(Inconclusive):
    pass


EXP = z3.Function('exp', z3.RealSort(), z3.RealSort())
SOLVER_TIMEOUT_MS = 60000


class Engine:
    mode = 'sym'

    def __init__(self):
        self.solver = z3.Solver()
        self.solver.set('timeout', SOLVER_TIMEOUT_MS)
        self.nchecks = 0
        self.solver_s = 0.0
        self.nproved = 0
        self.start([])

    # ---- path state -------------------------------------------------------
    def start(self, prefix):
        self.solver.reset()
        self.solver.set('timeout', SOLVER_TIMEOUT_MS)
        self.prefix = list(prefix)
        self.trace = []          # [(decision, remaining alternatives, kind)]
        self.pc = []
        self.fresh = 0
        self.log = []            # draw log, filled by the stubs
        self.cache = {}          # canonical cond key -> decided value
        self._ckmemo = {}
        self._divmemo = {}
        self._divax = []
        self._keep = []
        self.model = None        # a model of pc (valid when not None)
        self.values = {}         # name -> z3 const, for replay extraction
        self.notes = []

    def var(self, name, lo=None, hi=None, lo_strict=False, hi_strict=False):
        self.fresh += 1
        v = z3.Real("%s_%d" % (name, self.fresh))
        self.values[str(v)] = v
        if lo is not None:
            self.assume(v > lift(lo) if lo_strict else v >= lift(lo))
        if hi is not None:
            self.assume(v < lift(hi) if hi_strict else v <= lift(hi))
        return Sym(v)

    def real(self, name, lo=None, hi=None, lo_strict=False, hi_strict=False, eq=None):
        """named symbolic parameter (stable name, not numbered)"""
        v = z3.Real(name)
        self.values[name] = v
        if eq is not None:
            self.assume(v == lift(eq))
        if lo is not None:
            self.assume(v > lift(lo) if lo_strict else v >= lift(lo))
        if hi is not None:
            self.assume(v < lift(hi) if hi_strict else v <= lift(hi))
        return Sym(v)

    def _norm(self, c):
        """eliminate real divisions: a/b -> q with (b != 0 => q*b == a).  z3's incremental core is unreliable on `/`
        (it answered sat with a model violating a/a = 1); with the defining equations the queries are polynomial"""
        if not z3.is_expr(c):
            return c
        from .laws import elim_div
        defs = []
        r = elim_div(c, defs, self._divmemo)
        self._keep.append(c)
        for (q, a, b) in defs:
            ax = z3.Implies(b != 0, q * b == a)
            self.solver.add(ax)
            self.pc.append(ax)
            self._divax.append(ax)
            if self.model is not None:
                # the cached model knows nothing about the new quotient variable
                try:
                    if not z3.is_true(self.model.eval(ax, model_completion=True)):
                        self.model = None
                except z3.Z3Exception:
                    self.model = None
        return r

    def assume(self, c):
        if isinstance(c, SymBool):
            c = c.e
        if c is True:
            return
        if c is False:
            raise Abort('assume False')
        self.solver.add(c)
        self.pc.append(c)
        if self.model is not None:
            try:
                if not z3.is_true(self.model.eval(c, model_completion=True)):
                    self.model = None
            except z3.Z3Exception:
                self.model = None

    deadline = None        # CPU seconds (process_time)
    wall_deadline = None   # wall-clock guard against genuine hangs

    def _check(self, *extra):
        self.nchecks += 1
        t0 = _now()
        if self.deadline is not None and _cpu() > self.deadline:
            raise Inconclusive('configuration time budget exhausted')
        if self.wall_deadline is not None and t0 > self.wall_deadline:
            raise Inconclusive('configuration wall-clock guard reached')
        if extra:
            self.solver.push()
            self.solver.add(*extra)
            r = self.solver.check()
            self._last_model = self.solver.model() if r == z3.sat else None
            self.solver.pop()
        else:
            r = self.solver.check()
            self._last_model = self.solver.model() if r == z3.sat else None
        if r == z3.sat and self._divax:
            # the incremental core has been seen to answer sat with a model that violates a nonlinear constraint:
            # validate the model on the nonlinear part (division definitions, the query itself); distrust it otherwise
            m = self._last_model
            try:
                okm = all(z3.is_true(m.eval(c, model_completion=True)) for c in list(extra) + self._divax)
            except z3.Z3Exception:
                okm = False
            if not okm:
                r = z3.unknown
                self.nbogus = getattr(self, 'nbogus', 0) + 1
        if r == z3.unknown:
            # the incremental core's nonlinear arithmetic is incomplete: retry with a fresh solver
            # (complete nlsat pipeline) on the whole path condition
            s2 = z3.Solver()
            s2.set('timeout', SOLVER_TIMEOUT_MS)
            for c in self.pc:
                s2.add(c)
            for c in extra:
                s2.add(c)
            r = s2.check()
            self._last_model = s2.model() if r == z3.sat else None
            self.nfallback = getattr(self, 'nfallback', 0) + 1
        self.solver_s += _now() - t0
        if r == z3.unknown:
            raise Inconclusive("z3 unknown: %s" % self.solver.reason_unknown())
        return r

    def _ensure_model(self):
        if self.model is None:
            r = self._check()
            if r != z3.sat:
                raise Abort('infeasible path')
            self.model = self._last_model

    def branch(self, cond):
        """decide a symbolic condition; forks if both sides are feasible"""
        if isinstance(cond, bool):
            return cond
        cond = z3.simplify(cond)
        if z3.is_true(cond):
            return True
        if z3.is_false(cond):
            return False
        # the cache key must not depend on z3's AST ids: the simplifier orders commutative arguments by id, so
        # whether two equal-modulo-ordering conditions coincide could differ between a run and its replay
        cid = self._ckey(cond)
        if cid in self.cache:
            return self.cache[cid]
        i = len(self.trace)
        if i < len(self.prefix):
            ch, alts, kind = self.prefix[i]
            if kind != 'B':
                raise Inconclusive('engine: trace desync (branch where a choice was recorded)')
            self.trace.append((ch, alts, 'B'))
        else:
            self._ensure_model()
            mv = z3.is_true(self.model.eval(cond, model_completion=True))
            other = z3.Not(cond) if mv else cond
            r = self._check(other)
            if r == z3.sat:
                ch, alts = mv, [not mv]
                self.trace.append((ch, alts, 'B'))
            else:
                # forced: recorded (no alternatives) so that a replayed prefix needs no solver
                self.trace.append((mv, [], 'B'))
                self.cache[cid] = mv
                self._keep.append(cond)
                self.assume_quiet(cond if mv else z3.Not(cond))
                return mv
        self.cache[cid] = ch
        self._keep.append(cond)
        self.assume(cond if ch else z3.Not(cond))
        return ch

    _AC = None

    def _ckey(self, e):
        memo = self._ckmemo
        k = e.get_id()
        if k in memo:
            return memo[k]
        if Engine._AC is None:
            Engine._AC = {z3.Z3_OP_ADD, z3.Z3_OP_MUL, z3.Z3_OP_AND, z3.Z3_OP_OR, z3.Z3_OP_EQ, z3.Z3_OP_DISTINCT}
        if z3.is_app(e):
            d = e.decl()
            ch = [self._ckey(c) for c in e.children()]
            if not ch:
                r = str(e)
            else:
                if d.kind() in Engine._AC:
                    ch = sorted(ch, key=repr)
                r = (d.name(), tuple(ch))
        else:
            r = str(e)
        memo[k] = r
        self._keep.append(e)
        return r

    def assume_quiet(self, c):
        # implied by pc: add for the simplifier's benefit without invalidating the model
        self.solver.add(c)
        self.pc.append(c)

    def choose(self, n, what=None):
        """engine-controlled discrete choice among range(n)"""
        if n <= 0:
            raise ValueError('choose from empty')
        if n == 1:
            return 0
        i = len(self.trace)
        if i < len(self.prefix):
            ch, alts, kind = self.prefix[i]
            if kind != 'C' or ch >= n or any(a >= n for a in alts):
                raise Inconclusive('engine: trace desync (choice where a branch was recorded / different arity)')
        else:
            ch, alts = 0, list(range(1, n))
        self.trace.append((ch, alts, 'C'))
        return ch

    # ---- proving ----------------------------------------------------------
    def prove(self, cond):
        """is cond valid under the current path condition?  -> (True, None) | (False, model)"""
        if isinstance(cond, SymBool):
            cond = cond.e
        if isinstance(cond, np.bool_):
            cond = bool(cond)
        if isinstance(cond, bool):
            return (True, None) if cond else (False, self.current_model())
        cond = z3.simplify(cond)
        if z3.is_true(cond):
            return True, None
        self.nproved += 1
        r = self._check(z3.Not(cond))
        if r == z3.unsat:
            return True, None
        return False, self._last_model

    def feasible(self, cond):
        if isinstance(cond, SymBool):
            cond = cond.e
        return self._check(cond) == z3.sat

    def current_model(self):
        self._ensure_model()
        return self.model

    def model_values(self, model):
        """name -> Fraction for every symbol created on this path"""
        out = {}
        for name, v in self.values.items():
            val = model.eval(v, model_completion=True)
            out[name] = _z3num(val)
        return out

    def decisions(self):
        return [(ch, kind) for (ch, alts, kind) in self.trace]

    # ---- exploration ------------------------------------------------------
    def explore(self, fn, max_paths=10 ** 9):
        """yields (status, result) per path; status in ok/abort/exc"""
        prefix = []
        n = 0
        while True:
            self.start(prefix)
            try:
                res = fn(self)
                yield ('ok', res)
            except Abort as e:
                yield ('abort', e)
            n += 1
            tr = self.trace
            while tr and not tr[-1][1]:
                tr.pop()
            if not tr:
                return
            if n >= max_paths:
                yield ('cap', None)
                return
            ch, alts, kind = tr.pop()
            tr.append((alts[0], alts[1:], kind))
            prefix = tr


def _z3num(val):
    if z3.is_rational_value(val):
        return Fraction(val.numerator_as_long(), val.denominator_as_long())
    if z3.is_int_value(val):
        return Fraction(val.as_long())
    if z3.is_algebraic_value(val):
        return Fraction(val.approx(20).numerator_as_long(), val.approx(20).denominator_as_long())
    if z3.is_fp(val):
        r = z3.simplify(z3.fpToReal(val))      # a finite double is a rational number: exact
        if z3.is_rational_value(r):
            return Fraction(r.numerator_as_long(), r.denominator_as_long())
    raise Inconclusive("cannot extract value %s" % val)


class ConcreteEngine:
    """replays one path on ordinary floats: symbols come from `values`, choices from `decisions`"""
    mode = 'concrete'

    def __init__(self, values, decisions, tol=1e-9, exact=True):
        # exact=True: symbols are Fractions, so the real code runs in exact rational arithmetic and
        # follows precisely the path of the model (no rounding at ties); exact=False: floats
        self.exact = exact
        self.vals = dict(values)
        self.dec = [d for d in decisions if d[1] == 'C']
        self.tol = tol
        self.start([])

    def start(self, prefix):
        self.fresh = 0
        self.log = []
        self.ci = 0
        self.pc = []
        self.notes = []
        self.violated_assumptions = []

    def _get(self, name, lo=None, hi=None):
        if name not in self.vals:
            # symbol created after the failed obligation was evaluated in the symbolic run: any value inside its
            # declared range will do
            self.extended = True
            lo_ = None if lo is None or isinstance(lo, Sym) else Fraction(lo)
            hi_ = None if hi is None or isinstance(hi, Sym) else Fraction(hi)
            if lo_ is not None and hi_ is not None:
                v = (lo_ + hi_) / 2
            elif lo_ is not None:
                v = lo_ + 1
            elif hi_ is not None:
                v = hi_ - 1
            else:
                v = Fraction(1)
            return v if self.exact else float(v)
        v = self.vals[name]
        return Fraction(v) if self.exact else float(v)

    def var(self, name, lo=None, hi=None, lo_strict=False, hi_strict=False):
        self.fresh += 1
        return self._get("%s_%d" % (name, self.fresh), lo, hi)

    def real(self, name, lo=None, hi=None, lo_strict=False, hi_strict=False, eq=None):
        if eq is not None:
            return Fraction(eq) if self.exact else float(eq)
        return self._get(name, lo, hi)

    def assume(self, c):
        if c is False or (not isinstance(c, bool) and not c):
            self.violated_assumptions.append(c)

    def branch(self, cond):
        return bool(cond)

    def choose(self, n, what=None):
        if n <= 0:
            raise ValueError('choose from empty')
        if n == 1:
            return 0
        if self.ci >= len(self.dec):
            # the recorded trace ends where the failed obligation was evaluated; beyond that point any
            # continuation will do (the obligation of interest has already been re-evaluated)
            self.extended = True
            return 0
        ch = self.dec[self.ci][0]
        self.ci += 1
        if ch >= n:
            raise ReplayDiverged('recorded choice out of range')
        return ch

    def prove(self, cond):
        return (bool(cond), None)


class ReplayDiverged(BaseException):
    pass


ENG = Engine()


def set_engine(e):
    global ENG
    ENG = e
    return e


def get_engine():
    return ENG


def symbolic():
    return ENG.mode == 'sym'


# ---------------------------------------------------------------------------
def lift(x):
    """python / numpy number or Sym -> z3 real term"""
    if isinstance(x, Sym):
        return x.e
    if isinstance(x, z3.ExprRef):
        return x
    if isinstance(x, (bool, np.bool_)):
        return z3.RealVal(int(x))
    if isinstance(x, (int, np.integer)):
        return z3.RealVal(int(x))
    if isinstance(x, Fraction):
        return z3.RealVal(x)
    if isinstance(x, (float, np.floating)):
        x = float(x)
        if math.isinf(x) or math.isnan(x):
            raise TypeError("inf/nan cannot be lifted")
        if x == int(x):
            return z3.RealVal(int(x))
        return z3.RealVal(Fraction(x).limit_denominator(10 ** 12))
    raise TypeError("cannot lift %r" % type(x))


def _isinf(o):
    return isinstance(o, (float, np.floating)) and math.isinf(o)


class SymBool:
    __slots__ = ('e', 'meta')

    def __init__(self, e, meta=None):
        self.e = e
        self.meta = meta

    def __bool__(self):
        r = ENG.branch(self.e)
        if self.meta is not None:
            ENG.log.append(('cmp', self.meta[0], self.meta[1], r))
        return r

    def _o(self, o):
        if isinstance(o, SymBool):
            return o.e
        return z3.BoolVal(bool(o))

    def __and__(self, o):
        return SymBool(z3.And(self.e, self._o(o)))

    __rand__ = __and__

    def __or__(self, o):
        return SymBool(z3.Or(self.e, self._o(o)))

    __ror__ = __or__

    def __invert__(self):
        return SymBool(z3.Not(self.e))

    def __repr__(self):
        return "SymBool(%s)" % self.e


def _pyop(name):
    return {'add': operator.add, 'sub': operator.sub, 'mul': operator.mul,
            'truediv': operator.truediv}[name]


class Sym:
    """a z3 real-valued term behaving like a Python float"""
    __slots__ = ('e',)
    __array_priority__ = 10000

    def __init__(self, e):
        self.e = e

    # --- numpy interop: ufuncs on a bare Sym or mixing Sym with arrays
    def __array_ufunc__(self, ufunc, method, *inputs, **kw):
        if method != '__call__' or kw.get('out') is not None:
            return NotImplemented
        name = ufunc.__name__
        table = {
            'add': operator.add, 'subtract': operator.sub, 'multiply': operator.mul,
            'true_divide': operator.truediv, 'divide': operator.truediv,
            'negative': operator.neg, 'positive': operator.pos, 'power': operator.pow,
            'less': operator.lt, 'less_equal': operator.le, 'greater': operator.gt,
            'greater_equal': operator.ge, 'equal': operator.eq, 'not_equal': operator.ne,
            'exp': lambda a: a.exp() if isinstance(a, Sym) else math.exp(a),
            'absolute': abs, 'sqrt': lambda a: _sqrt(a),
        }
        if name not in table:
            raise Unencodable("numpy ufunc %s on symbolic value" % name)
        f = table[name]
        if any(isinstance(a, np.ndarray) for a in inputs):
            arrs = [a if isinstance(a, np.ndarray) else _scalar_obj(a) for a in inputs]
            return np.frompyfunc(f, len(inputs), 1)(*[np.asarray(a, dtype=object) for a in arrs])
        args = [a.item() if isinstance(a, np.generic) else a for a in inputs]
        return f(*args)

    def _b(self, o, f, swap=False):
        if isinstance(o, np.ndarray):
            return NotImplemented
        if _isinf(o):
            return _inf_arith(self, float(o), f, swap)
        try:
            oe = lift(o)
        except TypeError:
            return NotImplemented
        return Sym(z3.simplify(f(oe, self.e) if swap else f(self.e, oe)))

    def __add__(self, o): return self._b(o, operator.add)
    def __radd__(self, o): return self._b(o, operator.add, True)
    def __sub__(self, o): return self._b(o, operator.sub)
    def __rsub__(self, o): return self._b(o, operator.sub, True)
    def __mul__(self, o): return self._b(o, operator.mul)
    def __rmul__(self, o): return self._b(o, operator.mul, True)

    def __truediv__(self, o):
        if isinstance(o, np.ndarray):
            return NotImplemented
        if _isinf(o):
            return 0.0
        try:
            oe = lift(o)
        except TypeError:
            return NotImplemented
        _guard_div(oe)
        return Sym(z3.simplify(self.e / oe))

    def __rtruediv__(self, o):
        if isinstance(o, np.ndarray):
            return NotImplemented
        if _isinf(o):
            return _inf_arith(self, float(o), operator.mul, True)
        try:
            oe = lift(o)
        except TypeError:
            return NotImplemented
        _guard_div(self.e)
        return Sym(z3.simplify(oe / self.e))

    def __neg__(self): return Sym(z3.simplify(-self.e))
    def __pos__(self): return self

    def __abs__(self):
        return self if ENG.branch(self.e >= 0) else -self

    def __pow__(self, k):
        if isinstance(k, np.ndarray):
            return NotImplemented
        if isinstance(k, np.generic):
            k = k.item()
        if isinstance(k, float) and k == int(k):
            k = int(k)
        if isinstance(k, Sym):
            v = z3.simplify(k.e)
            if z3.is_rational_value(v) and v.denominator_as_long() == 1:
                k = v.numerator_as_long()
        if not isinstance(k, int):
            raise Unencodable("symbolic / non-integer exponent")
        if k < 0:
            return 1 / (self ** (-k))
        r = Sym(z3.RealVal(1))
        for _ in range(k):
            r = r * self
        return r

    def __rpow__(self, b):
        raise Unencodable("number ** symbolic")

    def exp(self):
        return Sym(EXP(self.e))

    def _c(self, o, f, op):
        if isinstance(o, np.ndarray):
            return NotImplemented
        if _isinf(o):
            return f(0.0, float(o))
        if o is None or isinstance(o, (str, tuple, list, dict, set, frozenset)):
            if op == 'eq':
                return False
            if op == 'ne':
                return True
            return NotImplemented
        try:
            oe = lift(o)
        except TypeError:
            return NotImplemented
        return SymBool(f(self.e, oe), (self.e - oe, op))

    def __lt__(self, o): return self._c(o, operator.lt, 'lt')
    def __le__(self, o): return self._c(o, operator.le, 'le')
    def __gt__(self, o): return self._c(o, operator.gt, 'gt')
    def __ge__(self, o): return self._c(o, operator.ge, 'ge')
    def __eq__(self, o): return self._c(o, operator.eq, 'eq')
    def __ne__(self, o): return self._c(o, operator.ne, 'ne')

    def __hash__(self):
        # constant: containers keyed by symbolic numbers then decide membership through
        # __eq__ (a solver fork) instead of treating possibly-equal values as distinct
        return 0x5151

    def __bool__(self):
        return not ENG.branch(self.e == 0)

    def __repr__(self):
        return "Sym(%s)" % self.e

    def __float__(self):
        raise Unencodable("float() on a symbolic value")

    def __int__(self):
        raise Unencodable("int() on a symbolic value")

    __index__ = __int__

    def __round__(self, n=None):
        raise Unencodable("round() on a symbolic value")

    def __deepcopy__(self, memo):
        return self

    def __copy__(self):
        return self


def _scalar_obj(a):
    x = np.empty((), dtype=object)
    x[()] = a
    return x


def _sqrt(a):
    raise Unencodable('sqrt')


def _guard_div(den):
    d = z3.simplify(den)
    if z3.is_rational_value(d):
        if d.numerator_as_long() == 0:
            raise ZeroDivisionError("float division by zero")
        return
    if ENG.div_guard and ENG.branch(d == 0):
        raise ZeroDivisionError("float division by zero")


Engine.div_guard = True


def _inf_arith(s, o, f, swap):
    """Sym (op) +-inf following IEEE semantics; sign questions are solver forks"""
    if f is operator.add:
        return o
    if f is operator.sub:
        return o if swap else -o
    if f is operator.mul:
        if ENG.branch(s.e > 0):
            return o
        if ENG.branch(s.e < 0):
            return -o
        return float('nan')
    raise Unencodable('inf arithmetic')


# ---- mode-aware helpers used by harness code --------------------------------
def is_sym(x):
    return isinstance(x, Sym)


def sym_float(x=0.0):
    if isinstance(x, (Sym, Fraction)):
        return x
    return float(x)


def sym_int(x=0, *a):
    """int() shadow: truncation toward zero of a symbolic real.  Small magnitudes are enumerated by solver forks and returned
    as Python ints (so that e.g. random.sample(population, int(N*rho)) keeps working); beyond that a symbolic floor term"""
    if a:
        return int(x, *a)
    if isinstance(x, Sym):
        if ENG.branch(x.e >= 0):
            for k in range(0, INT_ENUM):
                if ENG.branch(x.e < k + 1):
                    return k
            return Sym(z3.ToReal(z3.ToInt(x.e)))
        for k in range(0, INT_ENUM):
            if ENG.branch(x.e > -(k + 1)):
                return -k
        return Sym(-z3.ToReal(z3.ToInt(-x.e)))
    return int(x)   # Fraction / float: truncation, as the builtin


INT_ENUM = 6


def sym_round(x, ndigits=None):
    """round() shadow, banker's rounding, for symbolic x of small magnitude (enumerated by forks)"""
    if not isinstance(x, Sym):
        return round(x) if ndigits is None else round(x, ndigits)
    if ndigits is not None:
        raise Unencodable('round with digits')
    k = 0
    # find sign first
    if ENG.branch(x.e >= 0):
        while True:
            lo = k - Fraction(1, 2)
            hi = k + Fraction(1, 2)
            # banker's: half goes to even
            c_lo = (x.e >= lift(lo)) if k % 2 == 0 else (x.e > lift(lo))
            c_hi = (x.e <= lift(hi)) if k % 2 == 0 else (x.e < lift(hi))
            if ENG.branch(z3.And(c_lo, c_hi)):
                return k
            k += 1
            if k > 64:
                raise Unencodable('round: value too large')
    else:
        while True:
            k -= 1
            lo = k - Fraction(1, 2)
            hi = k + Fraction(1, 2)
            c_lo = (x.e >= lift(lo)) if k % 2 == 0 else (x.e > lift(lo))
            c_hi = (x.e <= lift(hi)) if k % 2 == 0 else (x.e < lift(hi))
            if ENG.branch(z3.And(c_lo, c_hi)):
                return k
            if k < -64:
                raise Unencodable('round: value too small')


# conditions that work in both modes ------------------------------------------
TOL = 1e-9


def _num(x):
    return x.e if isinstance(x, Sym) else x


def _both_concrete(a, b):
    return not isinstance(a, (Sym, z3.ExprRef)) and not isinstance(b, (Sym, z3.ExprRef))


def EQ(a, b):
    if _both_concrete(a, b):
        if _isinf(a) or _isinf(b):
            return a == b
        return abs(a - b) <= TOL * max(1.0, abs(a), abs(b))
    if _isinf(a) or _isinf(b):
        return False
    return lift(a) == lift(b)


def LE(a, b):
    if _both_concrete(a, b):
        if _isinf(a) or _isinf(b):
            return a <= b
        return a <= b + TOL * max(1.0, abs(a), abs(b))
    if _isinf(b):
        return b > 0
    if _isinf(a):
        return a < 0
    return lift(a) <= lift(b)


def LT(a, b):
    if _both_concrete(a, b):
        return a < b
    if _isinf(b):
        return b > 0
    if _isinf(a):
        return a < 0
    return lift(a) < lift(b)


def _cz(c):
    if isinstance(c, SymBool):
        return c.e
    return c


def AND(*cs):
    cs = [_cz(c) for c in cs]
    if all(isinstance(c, (bool, np.bool_)) for c in cs):
        return all(cs)
    return z3.And(*[z3.BoolVal(bool(c)) if isinstance(c, (bool, np.bool_)) else c for c in cs])


def OR(*cs):
    cs = [_cz(c) for c in cs]
    if all(isinstance(c, (bool, np.bool_)) for c in cs):
        return any(cs)
    return z3.Or(*[z3.BoolVal(bool(c)) if isinstance(c, (bool, np.bool_)) else c for c in cs])


def NOT(c):
    c = _cz(c)
    if isinstance(c, (bool, np.bool_)):
        return not c
    return z3.Not(c)


def IMPL(a, b):
    return OR(NOT(a), b)


def show(x):
    if isinstance(x, Sym):
        return str(z3.simplify(x.e))
    if isinstance(x, Fraction):
        return float(x)
    if isinstance(x, (np.ndarray, list, tuple)):
        return [show(v) for v in x]
    if isinstance(x, np.generic):
        return x.item()
    if isinstance(x, dict):
        return {str(k): show(v) for k, v in x.items()}
    if isinstance(x, float) and math.isinf(x):
        return 'inf' if x > 0 else '-inf'
    if isinstance(x, (int, float, str, bool)) or x is None:
        return x
    return str(x)

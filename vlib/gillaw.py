"""Law obligations for Gillespie-type simulators: in every reachable state the clock rate is the
reference total rate and every enabled event is chosen with probability rate/total (DESIGN C01-C03, C15).

Works on the draw logs of all explored paths of one configuration (the path tree).  The state of
the epidemic before step k is reconstructed from the events of steps < k; sibling branches of a
step (same state, different outcomes of the draws) are grouped and their masses summed per event.
"""
import z3
from collections import OrderedDict
from . import symx, laws
from .symx import lift, Sym, Inconclusive
from .laws import Prover, LawError, split_steps, step_mass


def install_weighted_choice_stub(sim):
    """replace the rejection loop of _ListDict_.choose_random (weighted case) by an engine choice that
    logs items and weights; that the real loop selects with probability weight/sum is C16's claim.
    The unweighted case keeps the real code (random.choice on the item list)."""
    L = sim._ListDict_
    if getattr(L, '_verif_orig_choose', None) is None:
        L._verif_orig_choose = L.choose_random

    def choose_random(self):
        if not self.weighted:
            return L._verif_orig_choose(self)
        eng = symx.ENG
        items = list(self.items)
        if not items:
            raise IndexError('Cannot choose from an empty sequence')
        weights = [self.weight[it] for it in items]
        i = eng.choose(len(items), 'wchoice')
        w = weights[i]
        if eng.mode == 'sym':
            c = lift(w) > 0
            if not eng.feasible(c):
                raise symx.Abort('zero-weight candidate cannot be selected')
            eng.assume(c)
        eng.log.append(('wchoice', items, weights, i, self._total_weight))
        return items[i]
    L.choose_random = choose_random


def uninstall_weighted_choice_stub(sim):
    L = sim._ListDict_
    if getattr(L, '_verif_orig_choose', None) is not None:
        L.choose_random = L._verif_orig_choose


def _sig(draws):
    out = []
    for d in draws:
        if d[0] == 'cmp':
            out.append(('c', d[3]))
        elif d[0] == 'choice':
            out.append(('k', d[2], len(d[1])))
        elif d[0] == 'wchoice':
            out.append(('w', d[3], len(d[1])))
        elif d[0] == 'random':
            out.append(('u',))
    return tuple(out)


def analyse(records, base, chain, status0, event_of_step, values_of=None, max_report=3):
    """records: list of (log, complete_flag).  Returns the `post` dict for harness.finish"""
    prover = Prover(base)
    tree = OrderedDict()      # prefix(tuple of events) -> node
    finals = []               # (prefix, status) of normally finished paths
    problems = []
    counts = {'clock-rate': 0, 'event-law': 0, 'event-enabled': 0, 'no-missing-event': 0, 'absorbing-iff-zero-rate': 0,
              'wchoice-total=sum': 0}
    failures = []
    inconc = []

    def fail(kind, detail, model=None):
        if len([f for f in failures if f['kind'] == kind]) >= max_report:
            return
        vals = None
        if model is not None:
            vals = {str(d): str(model[d]) for d in model.decls()}
        failures.append({'kind': kind, 'detail': detail, 'values': vals, 'decisions': None,
                         'confirmed': {'reproduced': True, 'how': 'law obligation: expressions extracted from the real code\'s own draws/comparisons; counterexample = parameter values where they differ from the reference chain',
                                       'model': vals}})

    for (log, complete) in records:
        prelude, steps = split_steps(log)
        status = dict(status0)
        prefix = ()
        nsteps = len(steps)
        for si, st in enumerate(steps):
            has_event = any(d[0] in ('choice', 'wchoice') for d in st['draws'])
            step_complete = (si < nsteps - 1) or complete
            node = tree.setdefault(prefix, {'status': dict(status), 'rates': [], 'branches': OrderedDict()})
            node['rates'].append(st['rate'])
            if not has_event or not step_complete:
                break
            sig = _sig(st['draws'])
            if sig not in node['branches']:
                try:
                    mass, chosen = step_mass(st['draws'], prover)
                except LawError as e:
                    inconc.append('step mass: %s' % e)
                    break
                ev = event_of_step(chosen, status, st['draws'])
                node['branches'][sig] = (mass, ev, st['draws'])
            ev = node['branches'][sig][1]
            if ev is None:
                break
            status = chain.apply(status, ev)
            prefix = prefix + (ev,)
        else:
            if complete:
                finals.append((prefix, status))
    # ---- obligations per state
    for prefix, node in tree.items():
        ref = chain.events(node['status'])
        tot = lift(_total(ref))
        for rate in node['rates'][:1] + [r for r in node['rates'][1:] if not _same(r, node['rates'][0])]:
            counts['clock-rate'] += 1
            ok, m = prover.valid(lift(rate) == tot)
            if not ok:
                fail('clock-rate', {'state': _st(node['status']), 'after': _p(prefix), 'rate_used': str(z3.simplify(lift(rate))), 'reference_total': str(z3.simplify(tot))}, m)
        masses = OrderedDict()
        for sig, (mass, ev, draws) in node['branches'].items():
            if ev is None:
                continue
            masses[ev] = masses.get(ev, z3.RealVal(0)) + mass
            for d in draws:
                if d[0] == 'wchoice':
                    counts['wchoice-total=sum'] += 1
                    s = z3.RealVal(0)
                    for w in d[2]:
                        s = s + lift(w)
                    ok, m = prover.valid(lift(d[4]) == s)
                    if not ok:
                        fail('wchoice-total=sum', {'state': _st(node['status']), 'total': str(lift(d[4])), 'sum': str(z3.simplify(s))}, m)
        if not node['branches']:
            continue
        for ev, mass in masses.items():
            counts['event-enabled'] += 1
            if ev not in ref:
                # a feasible branch produced an event that is not enabled in the reference chain
                ok, m = prover.valid(mass == 0)
                if not ok:
                    fail('event-enabled', {'state': _st(node['status']), 'after': _p(prefix), 'event': str(ev)}, m)
                continue
            counts['event-law'] += 1
            ok, m = prover.valid(mass * tot == lift(ref[ev]))
            if not ok:
                fail('event-law', {'state': _st(node['status']), 'after': _p(prefix), 'event': str(ev), 'mass': str(z3.simplify(mass))[:300],
                                   'reference': '%s / %s' % (z3.simplify(lift(ref[ev])), z3.simplify(tot))}, m)
        for ev, r in ref.items():
            counts['no-missing-event'] += 1
            if ev not in masses:
                ok, m = prover.valid(lift(r) == 0)
                if not ok:
                    fail('no-missing-event', {'state': _st(node['status']), 'after': _p(prefix), 'event': str(ev), 'rate': str(lift(r))}, m)
    for prefix, status in finals:
        ref = chain.events(status)
        counts['absorbing-iff-zero-rate'] += 1
        ok, m = prover.valid(lift(_total(ref)) == 0)
        if not ok:
            fail('absorbing-iff-zero-rate', {'final_state': _st(status), 'after': _p(prefix), 'reference_total': str(z3.simplify(lift(_total(ref))))}, m)
    nobl = sum(counts.values())
    return {'obligations': nobl, 'discharged': nobl - len(failures), 'counts': counts, 'failures': failures,
            'inconclusive': inconc, 'states': len(tree), 'transitions': sum(len(n['branches']) for n in tree.values()),
            'law_queries': prover.queries, 'law_solver_s': round(prover.seconds, 2)}


def _total(ev):
    t = 0
    for r in ev.values():
        t = t + r
    return t


def _same(a, b):
    try:
        return lift(a).eq(lift(b))
    except Exception:
        return False


def _st(status):
    return {str(k): v for k, v in status.items()}


def _p(prefix):
    return [str(e) for e in prefix]

"""Law obligations for Gillespie-type simulators: in every reachable state the clock rate is the
reference total rate and every enabled event is chosen with probability rate/total (DESIGN C01-C03, C15).

Works on the draw logs of all explored paths of one configuration (the path tree).  The state of
the epidemic before step k is reconstructed from the events of steps < k; sibling branches of a
step (same state, different outcomes of the draws) are grouped and their masses summed per event.
"""
import z3
from collections import OrderedDict
from . import symx, laws
from .symx import lift, Sym, Inconclusive
from .laws import Prover, LawError, split_steps, step_mass


REPLAY = [None]


class ReplayMismatch(Exception):
    pass


def install_weighted_choice_stub(sim):
    """replace the rejection loop of _ListDict_.choose_random (weighted case) by an engine choice that
    logs items and weights; that the real loop selects with probability weight/sum is C16's claim.
    The unweighted case keeps the real code (random.choice on the item list)."""
    L = sim._ListDict_
    if getattr(L, '_verif_orig_choose', None) is None:
        L._verif_orig_choose = L.choose_random

    def choose_random(self):
        if not self.weighted:
            return L._verif_orig_choose(self)
        eng = symx.ENG
        items = list(self.items)
        if not items:
            raise IndexError('Cannot choose from an empty sequence')
        weights = [self.weight[it] for it in items]
        if REPLAY[0] is not None:
            # second call of a repeat-call pair: the same candidate must be offered and is picked again
            e = REPLAY[0]._next('wchoice')
            if [str(x) for x in items] != [str(x) for x in e[1]]:
                raise ReplayMismatch('weighted choice over different candidates: %s vs %s' % (items, e[1]))
            REPLAY[0].wchoice_weights.append((weights, e[2]))
            return items[e[3]]
        i = eng.choose(len(items), 'wchoice')
        w = weights[i]
        if eng.mode == 'sym':
            c = lift(w) > 0
            if not eng.feasible(c):
                raise symx.Abort('zero-weight candidate cannot be selected')
            eng.assume(c)
        eng.log.append(('wchoice', items, weights, i, self._total_weight))
        return items[i]
    L.choose_random = choose_random


def uninstall_weighted_choice_stub(sim):
    L = sim._ListDict_
    if getattr(L, '_verif_orig_choose', None) is not None:
        L.choose_random = L._verif_orig_choose
    if getattr(L, '_verif_orig_update', None) is not None:
        L.update = L._verif_orig_update
        L.remove = L._verif_orig_remove


def install_abstract_weighted_set(sim):
    """For the law checks the weighted candidate set is used through its abstraction
    (items, weights, total = sum of weights, selection proportional to weight): update/remove of
    WEIGHTED sets are replaced by versions without the max_weight bookkeeping, whose weight
    comparisons only multiply paths.  That the real methods refine this abstraction after any
    history is exactly C16's inductive claim.  Unweighted sets keep the real code."""
    install_weighted_choice_stub(sim)
    L = sim._ListDict_
    if getattr(L, '_verif_orig_update', None) is None:
        L._verif_orig_update = L.update
        L._verif_orig_remove = L.remove

    def update(self, item, weight_increment=None):
        if not self.weighted:
            return L._verif_orig_update(self, item, weight_increment)
        if weight_increment is None:
            raise Exception('if weighted, must assign weight_increment')
        self.weight[item] = self.weight[item] + weight_increment
        self._total_weight += weight_increment
        if item in self:
            return
        self.items.append(item)
        self.item_to_position[item] = len(self.items) - 1

    def remove(self, choice):
        if not self.weighted:
            return L._verif_orig_remove(self, choice)
        position = self.item_to_position.pop(choice)
        last_item = self.items.pop()
        if position != len(self.items):
            self.items[position] = last_item
            self.item_to_position[last_item] = position
        weight = self.weight.pop(choice)
        self._total_weight -= weight
    L.update = update
    L.remove = remove


def _is_draw_cmp(d, uvars):
    return any(laws._mentions(d[1], u) for u in uvars)


def _cond_of(d):
    """z3 condition asserted by a logged comparison (diff (op) 0, direction taken)"""
    _, diff, op, taken = d
    zero = z3.RealVal(0)
    c = {'lt': diff < zero, 'le': diff <= zero, 'gt': diff > zero, 'ge': diff >= zero, 'eq': diff == zero, 'ne': diff != zero}[op]
    return c if taken else z3.Not(c)


def _sig(draws, uvars):
    out = []
    for d in draws:
        if d[0] == 'cmp':
            if _is_draw_cmp(d, uvars):
                out.append(('c', d[3]))
        elif d[0] == 'choice':
            out.append(('k', d[2], len(d[1])))
        elif d[0] == 'wchoice':
            out.append(('w', d[3], len(d[1])))
        elif d[0] == 'random':
            out.append(('u',))
    return tuple(out)


def analyse(records, base, chain, status0, event_of_step, values_of=None, max_report=3, ties=False):
    """records: list of (log, complete_flag).  Returns the `post` dict for harness.finish.

    A step's branch is identified by the outcomes of ITS draws (signature).  Comparisons that do not
    involve the step's uniform draws (weight orderings inside the candidate sets, horizon tests on
    earlier times) split the parameter space into regions; the mass of a branch is recorded per
    region and the law identity is proved with the regions as guards."""
    import inspect
    nargs = len(inspect.signature(event_of_step).parameters)
    prover = Prover(base)
    domain = {}

    def _dom(c):
        if c.get_id() not in domain:
            domain[c.get_id()] = c
            prover.s.add(c)
    tree = OrderedDict()      # prefix(tuple of events) -> node
    finals = []               # (prefix, status) of normally finished paths
    counts = {'clock-rate': 0, 'event-law': 0, 'event-enabled': 0, 'no-missing-event': 0, 'absorbing-iff-zero-rate': 0,
              'wchoice-total=sum': 0}
    failures = []
    inconc = []

    def fail(kind, detail, model=None, lhs=None, rhs=None):
        if len([f for f in failures if f['kind'] == kind]) >= max_report:
            return
        vals = None
        reproduced = True
        numeric = None
        if model is not None:
            vals = {str(d): str(model[d]) for d in model.decls()}
            if lhs is not None and rhs is not None:
                # re-evaluate both sides exactly at the counterexample: they must really differ there
                try:
                    a = symx._z3num(model.eval(lhs, model_completion=True))
                    b = symx._z3num(model.eval(rhs, model_completion=True))
                    numeric = {'from_the_code': float(a), 'reference_chain': float(b)}
                    reproduced = (a != b)
                except Exception as e:
                    numeric = {'evaluation_failed': repr(e)[:100]}
        failures.append({'kind': kind, 'detail': detail, 'values': vals, 'decisions': None,
                         'confirmed': {'reproduced': reproduced, 'how': 'law obligation: expressions extracted from the real code\'s own draws/comparisons, re-evaluated exactly at the counterexample parameter values',
                                       'numeric': numeric, 'model': vals}})

    for rec in records:
        log, complete = rec[0], rec[1]
        out = rec[2] if len(rec) > 2 else None
        prelude, steps = split_steps(log)
        status = dict(status0)
        prefix = ()
        nsteps = len(steps)
        region = [d for d in prelude if d[0] == 'cmp']     # comparisons not tied to a step's uniform draws, so far
        # supports of the draws: global hypotheses of every obligation (the stubs constrain their symbols this way)
        for ent in log:
            if ent[0] == 'expo':
                if symx._isinf(ent[2]):
                    continue
                _dom(lift(ent[2]) > 0 if not ties else lift(ent[2]) >= 0)
            elif ent[0] == 'random':
                _dom(z3.And(lift(ent[1]) >= 0, lift(ent[1]) < 1))
        for si, st in enumerate(steps):
            has_event = any(d[0] in ('choice', 'wchoice') for d in st['draws'])
            if symx._isinf(st['e']):
                has_event = False
            step_complete = (si < nsteps - 1) or complete
            node = tree.setdefault(prefix, {'status': dict(status), 'rates': [], 'branches': OrderedDict()})
            node['rates'].append((st['rate'], list(region)))
            if not has_event or not step_complete:
                break
            uvars = [lift(d[1]) for d in st['draws'] if d[0] == 'random']
            other = [d for d in st['draws'] if d[0] == 'cmp' and not _is_draw_cmp(d, uvars)]
            region = region + other
            rkey = tuple((d[1].get_id(), d[2], d[3]) for d in region)
            sig = _sig(st['draws'], uvars)
            br = node['branches'].setdefault(sig, {'ev': None, 'variants': OrderedDict(), 'draws': st['draws']})
            if rkey not in br['variants']:
                phi = [_cond_of(d) for d in region]
                try:
                    dd = [d for d in st['draws'] if d[0] != 'cmp' or _is_draw_cmp(d, uvars)]
                    mass, chosen = step_mass(dd, prover, tuple(phi))
                except LawError as e:
                    inconc.append('step mass: %s' % e)
                    break
                br['variants'][rkey] = (phi, mass, st['draws'])
                if br['ev'] is None:
                    br['ev'] = event_of_step(chosen, status, st['draws'], si, out) if nargs >= 5 else event_of_step(chosen, status, st['draws'])
            ev = br['ev']
            if ev is None:
                break
            status = chain.apply(status, ev)
            prefix = prefix + (ev,)
        else:
            if complete:
                finals.append((prefix, status))

    def guarded_sum(variants):
        """sum over regions of If(region, mass, 0); identical masses share one guard, dropped when it is valid"""
        by_mass = OrderedDict()
        for rkey, (phi, mass, draws) in variants.items():
            by_mass.setdefault(mass.get_id(), [mass, []])[1].append(z3.And(*phi) if phi else z3.BoolVal(True))
        tot = z3.RealVal(0)
        for mid, (mass, guards) in by_mass.items():
            g = z3.simplify(z3.Or(*guards)) if len(guards) > 1 else z3.simplify(guards[0])
            if z3.is_true(g):
                tot = tot + mass
                continue
            ok, _ = prover.valid(g)
            tot = tot + (mass if ok else z3.If(g, mass, 0))
        return tot

    # ---- obligations per state
    for prefix, node in tree.items():
        ref = chain.events(node['status'])
        tot = lift(_total(ref))
        seen = set()
        for rate, region in node['rates']:
            k = lift(rate).get_id()
            if k in seen:
                continue
            seen.add(k)
            counts['clock-rate'] += 1
            ok, m = prover.valid(lift(rate) == tot, tuple(_cond_of(d) for d in region))
            if not ok:
                fail('clock-rate', {'state': _st(node['status']), 'after': _p(prefix), 'rate_used': str(z3.simplify(lift(rate))), 'reference_total': str(z3.simplify(tot))}, m, lift(rate), tot)
        masses = OrderedDict()
        for sig, br in node['branches'].items():
            ev = br['ev']
            if ev is None:
                continue
            masses[ev] = masses.get(ev, z3.RealVal(0)) + guarded_sum(br['variants'])
            for rkey, (phi, mass, draws) in br['variants'].items():
                for d in draws:
                    if d[0] == 'wchoice':
                        counts['wchoice-total=sum'] += 1
                        ssum = z3.RealVal(0)
                        for w in d[2]:
                            ssum = ssum + lift(w)
                        ok, m = prover.valid(lift(d[4]) == ssum, tuple(phi))
                        if not ok:
                            fail('wchoice-total=sum', {'state': _st(node['status']), 'total': str(lift(d[4])), 'sum': str(z3.simplify(ssum))}, m)
        if not node['branches']:
            continue
        for ev, mass in masses.items():
            counts['event-enabled'] += 1
            if ev not in ref:
                ok, m = prover.valid(mass == 0)
                if not ok:
                    fail('event-enabled', {'state': _st(node['status']), 'after': _p(prefix), 'event': str(ev)}, m)
                continue
            counts['event-law'] += 1
            ok, m = prover.valid(mass * tot == lift(ref[ev]))
            if not ok:
                fail('event-law', {'state': _st(node['status']), 'after': _p(prefix), 'event': str(ev), 'mass': str(z3.simplify(mass))[:300],
                                   'reference': '(%s) / (%s)' % (z3.simplify(lift(ref[ev])), z3.simplify(tot))}, m, mass * tot, lift(ref[ev]))
        for ev, r in ref.items():
            counts['no-missing-event'] += 1
            if ev not in masses:
                ok, m = prover.valid(lift(r) == 0)
                if not ok:
                    fail('no-missing-event', {'state': _st(node['status']), 'after': _p(prefix), 'event': str(ev), 'rate': str(lift(r))}, m)
    for prefix, status in finals:
        ref = chain.events(status)
        counts['absorbing-iff-zero-rate'] += 1
        ok, m = prover.valid(lift(_total(ref)) == 0)
        if not ok:
            fail('absorbing-iff-zero-rate', {'final_state': _st(status), 'after': _p(prefix), 'reference_total': str(z3.simplify(lift(_total(ref))))}, m)
    nobl = sum(counts.values())
    return {'obligations': nobl, 'discharged': nobl - len(failures), 'counts': counts, 'failures': failures,
            'inconclusive': inconc, 'states': len(tree), 'transitions': sum(len(n['branches']) for n in tree.values()),
            'law_queries': prover.queries, 'law_solver_s': round(prover.seconds, 2)}


def _total(ev):
    t = 0
    for r in ev.values():
        t = t + r
    return t


def _same(a, b):
    try:
        return lift(a).eq(lift(b))
    except Exception:
        return False


def _st(status):
    return {str(k): v for k, v in status.items()}


def _p(prefix):
    return [str(e) for e in prefix]

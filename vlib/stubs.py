"""Environment stubs: the random source *is* the scheduler.

One stub class serves both engine modes: in symbolic mode every draw is a fresh
z3 symbol constrained to the support of its distribution (and logged together
with the symbolic argument it was requested with); in concrete (replay) mode the
same calls return the floats of the model being replayed.
"""
import itertools, sys, types, contextlib, builtins, math
from fractions import Fraction
import numpy as np
from . import symx
from .symx import Sym, Abort, BoundReached, sym_float, sym_int, sym_round


class UnmodelledRandomness(Exception):
    """the code under test consumed randomness / wall-clock from a source that is not one of the
    two documented ones (module-level `random`, `numpy.random`)"""


class UnencodableRandomness(symx.Inconclusive):
    """the code drew from one of the two ALLOWED sources through an entry point the engine does not model: not a property
    violation, the check cannot decide (exit 2)"""


class RunawayDraws(Exception):
    """a run consumed far more randomness than any run of the configuration can need (ordinary
    Exception on purpose: it is reported as a failure of the call, and replayed)"""


class RandomStub:
    """stands in for the module `random` inside EoN modules"""

    def __init__(self, ties=False, max_expo=None, max_uniform_per_step=None, on_draw=None, max_draws=None, truncate=False):
        self.max_draws = max_draws
        self.truncate = truncate      # after max_expo clock draws: "the next event never happens" (+inf) instead of aborting
        self.truncated = False
        self.ties = ties
        self.max_expo = max_expo
        self.max_unif = max_uniform_per_step
        self.n_random_calls = 0
        self.n_choice_calls = 0
        self.script_u = None
        self.script_choice = None
        self.n_expo = 0
        self.n_unif_step = 0
        self.on_draw = on_draw
        self.n_draws = 0

    def _log(self, *ent):
        symx.ENG.log.append(ent)
        self.n_draws += 1
        if self.max_draws is not None and self.n_draws > self.max_draws:
            raise RunawayDraws('more than %d random draws in one run' % self.max_draws)
        if self.on_draw:
            self.on_draw(ent)

    def random(self):
        self.n_unif_step += 1
        if self.max_unif is not None and self.n_unif_step > self.max_unif:
            raise BoundReached('uniform draws per step > %d' % self.max_unif)
        u = symx.ENG.var('u', lo=0, hi=1, hi_strict=True)
        if getattr(self, 'script_u', None) is not None:
            self.script_u(self.n_random_calls, u)        # a harness may steer a long run of draws by assumptions instead of forks
        self.n_random_calls += 1
        self._log('random', u)
        return u

    def expovariate(self, lambd):
        # CPython: -log(1.0 - random()) / lambd
        if lambd == 0:
            raise ZeroDivisionError("float division by zero")
        self.n_expo += 1
        self.n_unif_step = 0
        if self.max_expo is not None and self.n_expo > self.max_expo:
            if self.truncate:
                self.truncated = True
                symx.ENG.log.append(('expo', lambd, float('inf')))
                return float('inf')
            raise BoundReached('exponential draws > %d' % self.max_expo)
        e = symx.ENG.var('e', lo=0, lo_strict=not self.ties)
        self._log('expo', lambd, e)
        return e

    def choice(self, seq):
        if not len(seq):
            raise IndexError('Cannot choose from an empty sequence')
        i = None
        if getattr(self, 'script_choice', None) is not None:
            i = self.script_choice(self.n_choice_calls, seq)
        self.n_choice_calls += 1
        if i is None:
            i = symx.ENG.choose(len(seq), 'choice')
        self._log('choice', list(seq), i)
        return seq[i]

    def sample(self, population, k):
        if isinstance(population, (set, frozenset, dict)):
            raise TypeError("Population must be a sequence.  For dicts or sets, use sorted(d).")
        n = len(population)
        if not 0 <= k <= n:
            raise ValueError("Sample larger than population or is negative")
        perms = list(itertools.permutations(range(n), k))
        i = symx.ENG.choose(len(perms), 'sample')
        self._log('sample', list(population), k, perms[i])
        return [population[j] for j in perms[i]]

    def choices(self, population, weights=None, *, cum_weights=None, k=1):
        """draws WITH replacement (uniform only: a weighted call is not modelled)"""
        if cum_weights is not None:
            raise UnencodableRandomness("random.choices with cum_weights")
        if weights is not None:
            # weighted draw(s) with replacement: candidate i with probability w_i / sum w (logged with the weights AS PASSED, so a
            # caller can check that they are the weights of the candidates they are paired with)
            pop, ws = list(population), list(weights)
            if len(pop) != len(ws):
                raise ValueError('The number of weights does not match the population')
            if not pop:
                raise IndexError('Cannot choose from an empty population')
            out = []
            for _ in range(k):
                i = symx.ENG.choose(len(pop), 'wchoices')
                self._log('wchoices', pop, ws, i)
                out.append(pop[i])
            return out
        n = len(population)
        if n == 0:
            raise IndexError('Cannot choose from an empty population')
        idx = tuple(symx.ENG.choose(n, 'choices') for _ in range(k))
        self._log('choices', list(population), k, idx)
        return [population[j] for j in idx]

    def seed(self, *a, **k):
        return None

    # further entry points of the same (allowed) source, modelled through the primitives above
    def uniform(self, a, b):
        return a + (b - a) * self.random()

    def randrange(self, start, stop=None, step=1):
        r = list(range(start, stop, step)) if stop is not None else list(range(start))
        return self.choice(r)

    def randint(self, a, b):
        return self.choice(list(range(a, b + 1)))

    def shuffle(self, x):
        perms = list(itertools.permutations(range(len(x))))
        i = symx.ENG.choose(len(perms), 'shuffle')
        self._log('shuffle', len(x), perms[i])
        x[:] = [x[j] for j in perms[i]]

    def __getattr__(self, name):
        if name in ('Random', 'SystemRandom'):
            raise UnmodelledRandomness("random.%s: a private generator is not driven by random.seed" % name)
        raise UnencodableRandomness("random.%s is not modelled by the engine" % name)


class NPRandomStub:
    def binomial(self, n, p, size=None):
        if size is not None:
            raise UnmodelledRandomness("numpy.random.binomial(size=...)")
        n = int(n)
        k = symx.ENG.choose(n + 1, 'binomial')
        symx.ENG.log.append(('binomial', n, p, k))
        return k

    def seed(self, *a, **k):
        return None

    def random(self, size=None):
        if size is not None:
            raise UnencodableRandomness("numpy.random.random(size=...)")
        u = symx.ENG.var('u', lo=0, hi=1, hi_strict=True)
        symx.ENG.log.append(('random', u))
        return u
    random_sample = rand = random

    def __getattr__(self, name):
        if name in ('default_rng', 'RandomState', 'Generator'):
            raise UnmodelledRandomness("numpy.random.%s: a private generator is not driven by numpy.random.seed" % name)
        raise UnencodableRandomness("numpy.random.%s is not modelled by the engine" % name)


class NPProxy:
    """`np` as seen by an EoN module: numpy itself, except `random` (stub) and -- when
    `objarrays` -- allocation routines that would force dtype=float produce dtype=object"""

    def __init__(self, objarrays=False):
        self.random = NPRandomStub()
        self._obj = objarrays

    def __getattr__(self, n):
        return getattr(np, n)

    def _alloc(self, fn, shape, *a, **k):
        if self._obj:
            k.pop('dtype', None)
            z = np.empty(shape, dtype=object)
            z.fill(0 if fn == 'zeros' else 1)
            return z
        return getattr(np, fn)(shape, *a, **k)

    def zeros(self, shape, *a, **k):
        return self._alloc('zeros', shape, *a, **k)

    def ones(self, shape, *a, **k):
        return self._alloc('ones', shape, *a, **k)

    def zeros_like(self, arr, *a, **k):
        return self._alloc('zeros', np.shape(arr))

    def ones_like(self, arr, *a, **k):
        return self._alloc('ones', np.shape(arr))

    def array(self, x, *a, **k):
        if self._obj:
            k.pop('dtype', None)
            return np.array(x, dtype=object)
        return np.array(x, *a, **k)

    def exp(self, x):
        if isinstance(x, Sym):
            return x.exp()
        if isinstance(x, Fraction):
            return math.exp(x)
        return np.exp(x)


_POISON_TARGETS = None


_DISALLOWED = ('random.Random', 'random.SystemRandom', 'numpy.random.default_rng', 'numpy.random.RandomState', 'os.', 'time.', 'secrets.', 'uuid.')


def _poison(name):
    def f(*a, **k):
        if name.startswith(_DISALLOWED):
            raise UnmodelledRandomness(name)
        # the global streams of random / numpy.random reached without going through the module attribute the engine stubs
        raise UnencodableRandomness('%s reached directly (not through the stubbed module attribute)' % name)
    f.__name__ = 'poisoned_' + name.replace('.', '_')
    return f


@contextlib.contextmanager
def closed_world():
    """while the code under test runs, every *other* source of nondeterminism raises"""
    import random as _r, os as _os, time as _t, secrets as _s, uuid as _u
    saved = []

    def patch(obj, attr, label):
        if hasattr(obj, attr):
            saved.append((obj, attr, getattr(obj, attr)))
            setattr(obj, attr, _poison(label))
    for a in ('random', 'uniform', 'expovariate', 'choice', 'choices', 'sample', 'shuffle', 'randint',
              'randrange', 'gauss', 'normalvariate', 'betavariate', 'gammavariate', 'getrandbits',
              'triangular', 'paretovariate', 'weibullvariate', 'lognormvariate', 'vonmisesvariate',
              'randbytes', 'Random', 'SystemRandom'):
        patch(_r, a, 'random.' + a)
    for a in ('random', 'rand', 'randn', 'randint', 'binomial', 'choice', 'uniform', 'exponential',
              'poisson', 'geometric', 'random_sample', 'shuffle', 'permutation', 'default_rng',
              'RandomState', 'normal', 'multinomial', 'sample', 'ranf', 'bytes'):
        patch(np.random, a, 'numpy.random.' + a)
    patch(_os, 'urandom', 'os.urandom')
    patch(_os, 'getrandom', 'os.getrandom')
    for a in ('time', 'time_ns', 'perf_counter', 'perf_counter_ns', 'monotonic', 'monotonic_ns',
              'process_time'):
        patch(_t, a, 'time.' + a)
    for a in ('token_bytes', 'randbelow', 'choice', 'token_hex', 'randbits'):
        patch(_s, a, 'secrets.' + a)
    for a in ('uuid4', 'uuid1'):
        patch(_u, a, 'uuid.' + a)
    try:
        yield
    finally:
        for obj, attr, val in reversed(saved):
            setattr(obj, attr, val)


def install_sim(stub=None, npproxy=None):
    """install stubs and shadows into the EoN simulation modules (module attributes only;
    the repository source is untouched)"""
    import EoN, EoN.simulation as sim, EoN.auxiliary as aux, EoN.simulation_investigation as si
    stub = stub or RandomStub()
    npproxy = npproxy or NPProxy()
    from . import gillaw
    gillaw.REPLAY[0] = None
    for m in (sim, aux, si):
        m.random = stub
    sim.np = npproxy
    sim.float = sym_float
    sim.int = sym_int
    sim.round = sym_round
    return stub

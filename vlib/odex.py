"""odex -- symbolic evaluation of EoN's ODE layer (DESIGN 2.2).

The right-hand sides, initial-condition builders, *_from_graph wrappers and output tails are executed
unmodified on numpy object arrays of `Sym` (z3 reals); scipy's integrator is replaced by a FLOW STUB that
records (dfunc, X0, times, args) and returns an array whose row 0 is X0 and whose other rows are fresh
symbolic states ("an arbitrary point the flow may visit").  Trajectory properties are reduced to
vector-field properties (L5) and decided by z3.
"""
import math
from fractions import Fraction
import numpy as np
import z3
from . import symx
from .symx import Sym, lift, Inconclusive


from collections import Counter
STATS = Counter()      # solver work outside the path solver (read by the harness per path)


class FlowCall:
    def __init__(self, dfunc, X0, times, args, out, kind):
        self.dfunc, self.X0, self.times, self.args, self.out, self.kind = dfunc, X0, times, args, out, kind


class FlowStub:
    """stands in for scipy.integrate inside EoN.analytic"""

    def __init__(self, nrows=None, constrain=None):
        self.calls = []
        self.nrows = nrows
        self.constrain = constrain
        self.counter = 0

    def _rows(self, X0, times):
        X0 = list(np.asarray(X0, dtype=object).reshape(-1))
        n = len(times)
        out = np.empty((n, len(X0)), dtype=object)
        for j in range(len(X0)):
            out[0, j] = X0[j]
        for i in range(1, n):
            self.counter += 1
            for j in range(len(X0)):
                out[i, j] = Sym(z3.Real('x%d_%d_%d' % (self.counter, i, j)))
        return out, np.array(X0, dtype=object)

    def odeint(self, dfunc, X0, times, args=(), **kw):
        out, x0 = self._rows(X0, times)
        self.calls.append(FlowCall(dfunc, x0, times, args, out, 'odeint'))
        return out

    def my_odeint(self, dfunc, V0, times, args=()):
        out, x0 = self._rows(V0, times)
        self.calls.append(FlowCall(dfunc, x0, times, args, out, '_my_odeint_'))
        return out

    def ode(self, f, jac=None):
        """scipy.integrate.ode(f): f(t, y).  The emulation records where the integration is started (set_initial_value) and hands
        out one fresh symbolic state per integrate(t) call -- an arbitrary point of the flow, like odeint's rows."""
        flow = self

        class _Ode:
            def __init__(self):
                self.call = None
                self.t = None
                self.y = None

            def set_integrator(self, *a, **k):
                return self

            def set_f_params(self, *a):
                raise symx.Unencodable('scipy.integrate.ode.set_f_params')

            def set_initial_value(self, y, t=0.0):
                x0 = np.array(list(np.asarray(y, dtype=object).reshape(-1)), dtype=object)
                self.call = FlowCall(lambda X, tt: f(tt, X), x0, [t], (), [x0], 'integrate.ode')
                flow.calls.append(self.call)
                self.t, self.y = t, x0
                return self

            def integrate(self, t, step=False, relax=False):
                if self.call is None:
                    raise symx.Unencodable('integrate.ode.integrate before set_initial_value')
                flow.counter += 1
                i = len(self.call.times)
                row = np.empty(len(self.call.X0), dtype=object)
                for j in range(len(row)):
                    row[j] = Sym(z3.Real('x%d_%d_%d' % (flow.counter, i, j)))
                self.call.times.append(t)
                self.call.out.append(row)
                self.t, self.y = t, row
                return row

            def successful(self):
                return True
        return _Ode()


class NPX:
    """numpy as seen by EoN.analytic: allocation routines give object arrays so symbolic entries fit"""

    def __getattr__(self, n):
        return getattr(np, n)

    def zeros(self, shape, *a, **k):
        k.pop('dtype', None)
        z = np.empty(shape, dtype=object)
        z.fill(0)
        return z

    def ones(self, shape, *a, **k):
        k.pop('dtype', None)
        z = np.empty(shape, dtype=object)
        z.fill(1)
        return z

    def empty(self, shape, *a, **k):
        return self.zeros(shape)

    def full(self, shape, fill_value, *a, **k):
        z = np.empty(shape, dtype=object)
        z.fill(fill_value)
        return z

    def zeros_like(self, x, *a, **k):
        return self.zeros(np.shape(x))

    def ones_like(self, x, *a, **k):
        return self.ones(np.shape(x))

    def empty_like(self, x, *a, **k):
        return self.zeros(np.shape(x))

    def array(self, x, *a, **k):
        k.pop('dtype', None)
        try:
            return np.array(x, dtype=object)
        except ValueError:
            return np.array(x, *a, **k)

    def linspace(self, a, b, n, *aa, **k):
        if isinstance(a, (Sym, Fraction)) or isinstance(b, (Sym, Fraction)):
            n = int(n)
            out = np.empty(n, dtype=object)
            for i in range(n):
                out[i] = (a + (b - a) * Fraction(i, n - 1)) if n > 1 else a
            return out
        return np.linspace(a, b, n, *aa, **k)

    def exp(self, x):
        if isinstance(x, Sym):
            return x.exp()
        return np.exp(x)


def exact_shift(arr, k, *a, **kw):
    """scipy.ndimage shift for a 1-d array and an integer shift (fill 0): exact on objects"""
    arr = list(arr)
    n = len(arr)
    k = int(k)
    out = np.empty(n, dtype=object)
    for i in range(n):
        j = i - k
        out[i] = arr[j] if 0 <= j < n else 0
    return out


_ORIG = {}


def install(an, flow):
    """install the flow stub and shadows in EoN.analytic (module attributes; source untouched)"""
    if not _ORIG:
        _ORIG.update(integrate=an.integrate, np=an.np, shift=an.shift, my=an._my_odeint_)
    an.integrate = flow
    # (_my_odeint_ itself is executed: it drives the integrate.ode emulation above)
    an.np = NPX()
    an.shift = exact_shift
    an.float = symx.sym_float
    an.int = symx.sym_int
    return flow


def uninstall(an):
    if _ORIG:
        an.integrate, an.np, an.shift, an._my_odeint_ = _ORIG['integrate'], _ORIG['np'], _ORIG['shift'], _ORIG['my']
    for nm in ('float', 'int'):
        if nm in an.__dict__:
            del an.__dict__[nm]


# ---- symbolic differentiation of z3 real terms -------------------------------------------------
def zdiff(e, v, memo=None):
    """d e / d v for a z3 real term built from + - * / ^int and constants"""
    if memo is None:
        memo = {}
    k = e.get_id()
    if k in memo:
        return memo[k]
    if e.eq(v):
        r = z3.RealVal(1)
    elif z3.is_rational_value(e) or z3.is_int_value(e) or z3.is_const(e):
        r = z3.RealVal(0)
    else:
        op = e.decl().kind()
        ch = e.children()
        if op == z3.Z3_OP_ADD:
            r = z3.RealVal(0)
            for c in ch:
                r = r + zdiff(c, v, memo)
        elif op == z3.Z3_OP_SUB:
            r = zdiff(ch[0], v, memo)
            for c in ch[1:]:
                r = r - zdiff(c, v, memo)
        elif op == z3.Z3_OP_UMINUS:
            r = -zdiff(ch[0], v, memo)
        elif op == z3.Z3_OP_MUL:
            r = z3.RealVal(0)
            for i, c in enumerate(ch):
                dc = zdiff(c, v, memo)
                if z3.is_rational_value(dc) and dc.numerator_as_long() == 0:
                    continue
                term = dc
                for j, o in enumerate(ch):
                    if j != i:
                        term = term * o
                r = r + term
        elif op == z3.Z3_OP_DIV:
            a, b = ch
            da, db = zdiff(a, v, memo), zdiff(b, v, memo)
            r = (da * b - a * db) / (b * b)
        elif op == z3.Z3_OP_POWER:
            a, n = ch
            n = z3.simplify(n)
            if not (z3.is_rational_value(n) and n.denominator_as_long() == 1):
                raise symx.Unencodable('power with non-integer exponent')
            nn = n.numerator_as_long()
            r = nn * (a ** (nn - 1)) * zdiff(a, v, memo) if nn != 0 else z3.RealVal(0)
        elif op == z3.Z3_OP_TO_REAL:
            r = z3.RealVal(0)
        elif op == z3.Z3_OP_ITE:
            r = z3.If(ch[0], zdiff(ch[1], v, memo), zdiff(ch[2], v, memo))
        else:
            raise symx.Unencodable('zdiff: unsupported operator %s' % e.decl())
    r = z3.simplify(r)
    memo[k] = r
    return r


def lie_derivative(E, xs, fs):
    """sum_i dE/dx_i * f_i"""
    tot = z3.RealVal(0)
    for x, f in zip(xs, fs):
        d = zdiff(E, x)
        if z3.is_rational_value(d) and d.numerator_as_long() == 0:
            continue
        tot = tot + d * lift(f)
    return z3.simplify(tot)


# ---- rational-function normal form (clearing denominators) -----------------------------------
def to_frac(e, cache):
    k = e.get_id()
    if k in cache:
        return cache[k][:2]
    one = z3.RealVal(1)
    if z3.is_rational_value(e) or z3.is_int_value(e) or z3.is_const(e):
        r = (e, one)
    else:
        op = e.decl().kind()
        ch = [to_frac(c, cache) for c in e.children()]
        if op == z3.Z3_OP_ADD:
            # group by denominator first (keeps the common denominators of a vector field from multiplying up)
            groups = {}
            order = []
            for (n2, d2) in ch:
                k2 = d2.get_id()
                if k2 in groups:
                    groups[k2][0] = groups[k2][0] + n2
                else:
                    groups[k2] = [n2, d2]
                    order.append(k2)
            n, d = groups[order[0]]
            for k2 in order[1:]:
                n2, d2 = groups[k2]
                n, d = n * d2 + n2 * d, d * d2
            r = (n, d)
        elif op == z3.Z3_OP_SUB:
            n, d = ch[0]
            for (n2, d2) in ch[1:]:
                if d.eq(d2):
                    n = n - n2
                else:
                    n, d = n * d2 - n2 * d, d * d2
            r = (n, d)
        elif op == z3.Z3_OP_MUL:
            n, d = ch[0]
            for (n2, d2) in ch[1:]:
                n, d = n * n2, d * d2
            r = (n, d)
        elif op == z3.Z3_OP_DIV:
            (n1, d1), (n2, d2) = ch
            r = (n1 * d2, d1 * n2)
        elif op == z3.Z3_OP_UMINUS:
            r = (-ch[0][0], ch[0][1])
        elif op == z3.Z3_OP_POWER:
            (n1, d1) = ch[0]
            kk = z3.simplify(e.children()[1]).numerator_as_long()
            if kk > 0:
                r = (n1 ** kk if kk != 1 else n1, d1 ** kk if kk != 1 else d1)
            elif kk == 0:
                r = (one, one)
            else:
                r = (d1 ** (-kk), n1 ** (-kk))
        elif op == z3.Z3_OP_TO_REAL:
            r = (e, one)
        else:
            raise symx.Unencodable('to_frac: %s' % e.decl())
    r = (z3.simplify(r[0]), z3.simplify(r[1]))
    cache[k] = (r[0], r[1], e)       # keep e alive: z3 re-uses the ids of freed terms
    return r


class IdProver:
    """identities / sign conditions between rational functions, decided by z3 after clearing denominators"""

    def __init__(self, assumptions=(), timeout_ms=60000):
        self.assumptions = list(assumptions)
        self.timeout_ms = timeout_ms
        self.cache = {}
        self.queries = 0
        self.seconds = 0.0

    def _solver(self):
        s = z3.Solver()
        s.set('timeout', self.timeout_ms)
        for a in self.assumptions:
            s.add(a)
        return s

    def equal(self, a, b):
        """a == b for all values satisfying the assumptions (denominators are non-zero there)"""
        a, b = z3.simplify(lift(a)), z3.simplify(lift(b))
        if a.eq(b):
            return True, None
        (na, da), (nb, db) = to_frac(a, self.cache), to_frac(b, self.cache)
        raw = na * db - nb * da
        # cheap refutation first: a random rational point where the difference is non-zero is handed to z3 as
        # a hint (variables fixed); z3 confirms it is a model of the assumptions
        hint = self._random_nonzero(raw, da * db)
        if hint is not None:
            s2 = self._solver()
            for v, val in hint.items():
                s2.add(v == val)
            s2.add(raw != 0, da != 0, db != 0)
            self.queries += 1
            STATS['queries'] += 1
            if s2.check() == z3.sat:
                return False, s2.model()
        lhs = z3.simplify(raw, som=True)
        if z3.is_rational_value(lhs) and lhs.numerator_as_long() == 0:
            self.queries += 1
            STATS['queries'] += 1
            STATS['identities_closed_by_normalisation'] += 1
            return True, None
        s = self._solver()
        s.add(lhs != 0)
        s.add(da != 0, db != 0)
        return self._run(s)

    def _random_nonzero(self, poly, den):
        import random as _r
        from z3 import z3util
        vs = z3util.get_vars(poly)
        rnd = _r.Random(12345)
        for _ in range(3):
            sub = [(v, z3.RealVal(Fraction(rnd.randint(1, 97), rnd.randint(1, 13)))) for v in vs]
            if not sub:
                return None
            val = z3.simplify(z3.substitute(poly, *sub))
            dv = z3.simplify(z3.substitute(den, *sub))
            if z3.is_rational_value(val) and z3.is_rational_value(dv) and dv.numerator_as_long() != 0 and val.numerator_as_long() != 0:
                return {v: x for v, x in sub}
        return None

    def holds(self, cond):
        """arbitrary z3 condition (after division elimination)"""
        from .laws import elim_div
        defs, memo = [], {}
        goal = elim_div(z3.simplify(cond), defs, memo)
        s = self._solver()
        for (q, a, b) in defs:
            s.add(z3.Implies(b != 0, q * b == a))
        s.add(z3.Not(goal))
        return self._run(s)

    def _run(self, s):
        self.queries += 1
        STATS['queries'] += 1
        t0 = symx._now()
        r = s.check()
        self.seconds += symx._now() - t0
        STATS['seconds_x1000'] += int(1000 * (symx._now() - t0))
        if r == z3.unknown:
            raise Inconclusive('z3 unknown (odex): %s' % s.reason_unknown())
        return (r == z3.unsat), (s.model() if r == z3.sat else None)


def model_values(m):
    return {str(d): str(m[d]) for d in m.decls()} if m is not None else None

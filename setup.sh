#!/bin/sh
# Build the overlay venv the checks run in: /venv (repo deps) + z3-solver, crosshair-tool, cvc5 from the offline wheelhouse.
set -e
cd "$(dirname "$0")"
if [ -x .venv/bin/python ] && .venv/bin/python -c "import z3, crosshair, networkx, numpy, scipy" 2>/dev/null; then
  echo "overlay venv present"; exit 0
fi
rm -rf .venv
/venv/bin/python -m venv .venv
echo "/venv/lib/python3.12/site-packages" > .venv/lib/python3.12/site-packages/_overlay.pth
PIP_NO_INDEX=1 .venv/bin/pip install -q --no-index --find-links /opt/veriftools/wheels z3-solver crosshair-tool cvc5
.venv/bin/python -c "import z3, crosshair, networkx, numpy, scipy; print('setup ok: z3', z3.get_version_string())"

"""regenerate seeded/README.md from seeded/*/meta.json"""
import json, glob, os
HERE = os.path.dirname(os.path.abspath(__file__))
rows = []
for f in sorted(glob.glob(os.path.join(HERE, 'seeded', '*', 'meta.json'))):
    m = json.load(open(f))
    tag = os.path.basename(os.path.dirname(f))
    checks = m.get('checks') or {}
    det = m.get('detected_by') or []
    kinds = []
    for c in det:
        for l in checks[c]['lines']:
            if 'kind=' in l:
                kinds.append('%s: %s' % (c, l.split('kind=')[1].split(' ')[0]))
                break
        else:
            kinds.append('%s: replayed VIOLATION' % c)
    status = ', '.join(kinds) if kinds else ('NOT DETECTED (' + ', '.join('%s exit %s' % (c, r['exit']) for c, r in checks.items()) + ')')
    conf = m.get('confirmed') or {}
    rows.append((tag, m.get('breaks_property'), (m.get('what') or '').replace('|', '/').replace('\n', ' ')[:230],
                 (m.get('needs_to_manifest') or '').replace('|', '/').replace('\n', ' ')[:200], 'yes' if conf.get('demo_confirmed') else 'NO', status))
with open(os.path.join(HERE, 'seeded', 'README.md'), 'w') as f:
    f.write('# Seeded changes\n\nEach directory holds `patch.diff` (a change to fabmazz/Epidemics-on-Networks written by an independent sub-agent that saw only the\n'
            'property text), `demo.py` (fails with the change, passes without) and `meta.json` (what it needs to manifest, what was run,\n'
            'which checks report it).  None of these changes is ever committed to /repo.  Confirmation and check runs: `python3 tools_seeded.py <tag>`.\n\n')
    f.write('| tag | property | change | needs to manifest | demo confirmed both ways | reported by (check: obligation kind) |\n|---|---|---|---|---|---|\n')
    for r in rows:
        f.write('| %s | %s | %s | %s | %s | %s |\n' % r)
    n = len(rows)
    d = sum(1 for r in rows if not r[5].startswith('NOT'))
    f.write('\n%d kept changes, %d reported as a replayed VIOLATION by at least one check.\n' % (n, d))
print(open(os.path.join(HERE, 'seeded', 'README.md')).read()[-600:])

"""driver: ./check <Cxx> [--tier quick|thorough] [--replay file] [--selftest]"""
import sys, os, argparse, warnings
warnings.filterwarnings('ignore')
HERE = os.path.dirname(os.path.abspath(__file__))
REPO = os.environ.get('EON_REPO', '/repo')
sys.path.insert(0, HERE)
sys.path.insert(0, REPO)   # always the current working tree of the repository


def import_eon_with_poisoned_rng_constructors():
    """A generator object created at import time of an EoN module (e.g. a module-level numpy default_rng() or random.Random())
    would escape the run-time closed world; while EoN is imported, the constructors return objects whose every use raises."""
    import importlib
    for m in ('networkx', 'numpy', 'scipy.integrate', 'scipy.ndimage', 'scipy.special', 'scipy.stats', 'scipy.linalg', 'scipy.sparse', 'matplotlib.pyplot', 'matplotlib.animation'):
        try:
            importlib.import_module(m)
        except Exception:
            pass
    import random as _r
    import numpy as _np
    from vlib.stubs import UnmodelledRandomness

    class PoisonRNG:
        def __init__(self, *a, **k):
            object.__setattr__(self, '_what', 'a random generator created when an EoN module was imported')

        def __getattr__(self, name):
            raise UnmodelledRandomness('%s (.%s)' % (object.__getattribute__(self, '_what'), name))
    saved = [(_np.random, 'default_rng', _np.random.default_rng), (_np.random, 'RandomState', _np.random.RandomState),
             (_np.random, 'Generator', _np.random.Generator), (_r, 'Random', _r.Random), (_r, 'SystemRandom', _r.SystemRandom)]

    def guarded(real):
        # only generators constructed BY EoN's own module-level code are poisoned: a library that EoN imports for the first time
        # (scipy.stats, ...) may create its private generator as usual
        def make(*a, **k):
            caller = sys._getframe(1).f_globals.get('__name__', '')
            if caller == 'EoN' or caller.startswith('EoN.'):
                return PoisonRNG()
            return real(*a, **k)
        return make
    for obj, attr, real in saved:
        setattr(obj, attr, guarded(real))
    try:
        import EoN      # noqa
    finally:
        for obj, attr, val in saved:
            setattr(obj, attr, val)


def main():
    ap = argparse.ArgumentParser()
    ap.add_argument('prop')
    ap.add_argument('--tier', default=os.environ.get('VERIF_TIER', 'quick'))
    ap.add_argument('--replay')
    ap.add_argument('--selftest', action='store_true')
    ap.add_argument('--workers', type=int)
    a = ap.parse_args()
    seed = int(os.environ.get('VERIF_SEED', '0'))
    import_eon_with_poisoned_rng_constructors()
    import EoN
    assert os.path.realpath(EoN.__file__).startswith(os.path.realpath(REPO)), EoN.__file__
    from vlib import harness
    if a.replay:
        sys.exit(harness.replay_file(a.replay))
    mod = __import__('checks.' + a.prop, fromlist=['x'])
    if a.selftest:
        os.environ['VERIF_SELFTEST'] = '1'
    if hasattr(mod, 'main'):
        sys.exit(mod.main(a.tier, seed))
    sys.exit(harness.run_check(a.prop, a.tier, seed, a.workers))


if __name__ == '__main__':
    try:
        main()
    except SystemExit:
        raise
    except BaseException as e:
        import traceback
        traceback.print_exc()
        print("INCONCLUSIVE: harness crashed: %r" % (e,))
        sys.exit(2)

"""driver: ./check <Cxx> [--tier quick|thorough] [--replay file] [--selftest]"""
import sys, os, argparse, warnings
warnings.filterwarnings('ignore')
HERE = os.path.dirname(os.path.abspath(__file__))
REPO = os.environ.get('EON_REPO', '/repo')
sys.path.insert(0, HERE)
sys.path.insert(0, REPO)   # always the current working tree of the repository


def main():
    ap = argparse.ArgumentParser()
    ap.add_argument('prop')
    ap.add_argument('--tier', default=os.environ.get('VERIF_TIER', 'quick'))
    ap.add_argument('--replay')
    ap.add_argument('--selftest', action='store_true')
    ap.add_argument('--workers', type=int)
    a = ap.parse_args()
    seed = int(os.environ.get('VERIF_SEED', '0'))
    import EoN
    assert os.path.realpath(EoN.__file__).startswith(os.path.realpath(REPO)), EoN.__file__
    from vlib import harness
    if a.replay:
        sys.exit(harness.replay_file(a.replay))
    mod = __import__('checks.' + a.prop, fromlist=['x'])
    if a.selftest:
        os.environ['VERIF_SELFTEST'] = '1'
    if hasattr(mod, 'main'):
        sys.exit(mod.main(a.tier, seed))
    sys.exit(harness.run_check(a.prop, a.tier, seed, a.workers))


if __name__ == '__main__':
    try:
        main()
    except SystemExit:
        raise
    except BaseException as e:
        import traceback
        traceback.print_exc()
        print("INCONCLUSIVE: harness crashed: %r" % (e,))
        sys.exit(2)

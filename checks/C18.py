"""C18 -- simulations are reproducible from the random seeds."""
import ast, itertools, os, sys, json, subprocess
from vlib import symx, graphs, simruns, simobl
from vlib.symx import INF, EQ, LE, LT, AND, OR, NOT, show
from vlib.stubs import RandomStub, NPProxy, install_sim, UnmodelledRandomness
from checks.C05 import ReplayStub, DRAWS, install_replay, struct_eq
from checks.C09 import CONT_SIR, CONT_SIS, DISC, sim_bounds

PROPERTY = 'C18'
EXPLANATION = ("Seeding = fixing the sequence of values the two documented sources hand out.  (1) Repeat-call determinism: every "
               "simulator is called twice on the same symbolic path, the second time with a replaying source (i-th draw must be of the "
               "same kind, is compared -- by z3 -- for the same symbolic argument, and returns the same symbol); z3 proves the two "
               "outputs are identical terms and that the second call consumed exactly the same draws: hidden state (mutable "
               "defaults, module caches) would break this.  (2) Closed randomness: while the code under test runs, every other "
               "source (random.Random/SystemRandom and all other functions of the real random module, numpy.random.*, os.urandom, "
               "time.*, secrets, uuid) raises, and any attribute of the stubs other than the modelled entry points raises.  (3) "
               "Independence of return_full_data is C10's 'same-draws-both-modes'.  (4) Hash seeds: the continuous-time simulators are "
               "re-loaded from /repo's current source through an AST transformer that turns every set display / comprehension / set() "
               "call into NDSet, whose iteration order is an ENGINE CHOICE (every permutation = a superset of every hash seed); with "
               "string node names and statuses z3 proves the outputs and the draw sequence are identical under every order.")
BOUNDS = {'quick': 'graphs P3 (K2 for some); <=3 events; sets of <=3 elements (all permutations)', 'thorough': 'adds K3, P4; <=4 events'}
ASSUMPTIONS = ['floats as reals', 'user callbacks return lists (a set-returning influence-set function is the user\'s nondeterminism)',
               'dict iteration is insertion-ordered (language guarantee), so only sets depend on the hash seed',
               'a hash-order violation is replayed by running the real code under PYTHONHASHSEED 0..31 with seeded random; if no two outputs differ it is reported as inconclusive']
OPTS = {'quick': {'max_validate': 1, 'validate_every': 29, 'cfg_timeout': 240}, 'thorough': {'max_validate': 1, 'validate_every': 211, 'cfg_timeout': 1500}}
MUST_EVALUATE = {'quick': ['repeat-call-identical', 'repeat-call-same-draws', 'draw-arguments-identical', 'closed-randomness', 'order-independent']}


def functions():
    import EoN.simulation as s
    return [getattr(s, n) for n in CONT_SIR + CONT_SIS + DISC] + [s.Gillespie_simple_contagion, s.Gillespie_complex_contagion]


STR = {0: 'n_c', 1: 'n_a', 2: 'n_b', 3: 'n_d'}


def configs(tier):
    out = []
    for entry in CONT_SIR + CONT_SIS + ['discrete_SIR', 'basic_discrete_SIR', 'percolation_based_discrete_SIR', 'basic_discrete_SIS']:
        sir = 'SIR' in entry
        for g in ['P3'] + (['K3'] if tier == 'thorough' else []):
            for I0, R0 in [([0], []), ([1], [0] if sir else []), ([0, 2], [])]:
                for full in (False, True):
                    c = dict(family='repeat', entry=entry, graph=g, I0=I0, R0=R0, full=full, tags=['repeat', g, 'full' if full else 'plain'])
                    sim_bounds(entry, c, tier)
                    c.pop('zero_duration', None)
                    if entry == 'Gillespie_SIS':
                        c['truncate'] = True
                    if entry in ('Gillespie_SIR', 'Gillespie_SIS') and I0 == [0]:
                        out.append(dict(c, weights='both', wstub='abstract', tags=c['tags'] + ['w:both']))
                    out.append(c)
    # same draws, with and without return_full_data (a few of C10's configurations, among them initially recovered nodes)
    from checks import C10
    for c in C10.configs(tier):
        if c['graph'] == 'P3' and (c.get('R0') or c.get('I0') == [1]) and len(c.get('I0') or []) == 1 and c.get('tmax') != 'sym':
            out.append(dict(c, family='flag', tags=['flag'] + c['tags']))
    from checks import C03, C15
    for c in C03.configs(tier):
        if c['graph'] == 'P3' and c['mode'] in ('plain', 'weight_label') and c['spec'] in ('SIS', 'SEIR'):
            out.append(dict(c, family='repeat-simple', tags=['repeat-simple'] + c['tags']))
    for c in C15.configs(tier):
        if c['graph'] == 'P3' and not c['full']:
            out.append(dict(c, family='repeat-complex', tags=['repeat-complex'] + c['tags']))
    # hash-seed independence: string labels, set iteration order = engine choice
    for entry in CONT_SIR + CONT_SIS:
        sir = 'SIR' in entry
        for I0, R0 in [([0], []), ([0, 2], [1] if sir else [])]:
            for full in (False, True):
                c = dict(family='order', entry=entry, graph='P3', I0=I0, R0=R0, full=full, labels=['n_c', 'n_a', 'n_b'],
                         tags=['order', 'full' if full else 'plain'])
                sim_bounds(entry, c, tier)
                c.pop('zero_duration', None)
                if entry == 'Gillespie_SIS':
                    c['truncate'] = True
                out.append(c)
                if I0 == [0] and full:
                    # the documented default (no initial_infecteds: one random node), with an initially recovered node for SIR
                    out.append(dict(c, omit_I0=True, R0=[1] if sir else [], tags=c['tags'] + ['default-ic']))
                if I0 == [0] and entry in ('Gillespie_SIR', 'Gillespie_SIS', 'fast_SIR', 'fast_nonMarkov_SIR') and (full or entry.startswith('Gillespie')):
                    # the triangle is the smallest graph on which the order of a neighbour loop can change a candidate list
                    out.append(dict(c, graph='K3', tags=c['tags'] + ['K3']))
    for c in C03.configs(tier):
        if c['graph'] in ('P3', 'K3', 'D:3:02,12,20') and c['mode'] == 'plain' and c['spec'] in ('SIS', 'compete') and c['ic'][0] != 'S' and not c.get('minimal_spec') and not c.get('return_order'):
            out.append(dict(c, family='order-simple', tags=['order-simple'] + c['tags']))
    return out


# ---- replay with argument comparison -----------------------------------------------------------------
class CheckingReplay:
    """wraps install_replay: additionally proves that each draw is requested with the same symbolic argument"""

    def __init__(self, h, recorded):
        self.h = h
        self.stub = install_replay(recorded)
        st = self.stub
        orig_expo, orig_choice, orig_sample = st.expovariate, st.choice, st.sample

        def expovariate(lambd):
            i = st.i
            v = orig_expo(lambd)
            rec = st.rec[i]
            h.require('draw-arguments-identical', EQ(lambd, rec[1]), {'draw': i, 'kind': 'expovariate', 'first': show(rec[1]), 'second': show(lambd)})
            return v

        def choice(seq):
            i = st.i
            v = orig_choice(seq)
            rec = st.rec[i]
            if list(seq) != list(rec[1]):
                h.fail('draw-arguments-identical', {'draw': i, 'kind': 'choice', 'first': [str(x) for x in rec[1]], 'second': [str(x) for x in seq]})
            else:
                h.require('draw-arguments-identical', True)
            return v

        def sample(pop, k):
            i = st.i
            v = orig_sample(pop, k)
            rec = st.rec[i]
            if list(pop) != list(rec[1]) or k != rec[2]:
                h.fail('draw-arguments-identical', {'draw': i, 'kind': 'sample'})
            else:
                h.require('draw-arguments-identical', True)
            return v
        st.expovariate, st.choice, st.sample = expovariate, choice, sample


def second_run_equal(h, first_struct, run_second, log0, kinds=('repeat-call-identical', 'repeat-call-same-draws')):
    cr = CheckingReplay(h, log0)
    st, res = h.call(run_second)
    if st == 'exc':
        if isinstance(res, UnmodelledRandomness):
            h.fail('closed-randomness', {'source': str(res)})
        else:
            h.fail(kinds[1], {'exception': repr(res)[:300]})
        return
    if res is None:
        return
    if cr.stub.i != len(log0):
        h.fail(kinds[1], {'first_call_draws': len(log0), 'second_call_draws': cr.stub.i})
    else:
        h.require(kinds[1], True)
    h.require(kinds[0], struct_eq(first_struct, res), {'first': show(first_struct), 'second': show(res)})


def run_repeat(h, cfg):
    eng = symx.ENG
    r = simruns.setup(cfg)
    ret = simruns.call_entry(h, r, 'no-exception')
    if ret is None:
        return None
    h.require('closed-randomness', True)
    o = simruns.outputs(r, ret)
    a = simruns.result_struct(o, r.nodes)
    log0 = [e for e in eng.log if e[0] in DRAWS]
    contacts = dict(getattr(r, 'contacts', {}))

    def again():
        r2 = simruns.setup(cfg)
        r2.tmin, r2.tmax, r2.tau, r2.gamma = r.tmin, r.tmax, r.tau, r.gamma
        r2.G = r.G                 # the very same graph object, as a user would call twice
        if hasattr(r, 'p'):
            r2.fixed_p = r.p
        if hasattr(r, 'durations'):
            r2.replay_from = r
        CheckingReplay(h, log0)    # re-install after setup() replaced the stubs
        return None
    # build the second call by hand so that stubs stay the replaying ones
    def second():
        r2 = simruns.setup(cfg)
        r2.tmin, r2.tmax, r2.tau, r2.gamma = r.tmin, r.tmax, r.tau, r.gamma
        r2.G = r.G
        r2.nodes = r.nodes
        if hasattr(r, 'durations'):
            r2.replay_from = r
        cr = CheckingReplay(h, log0)
        second.cr = cr
        if cfg['entry'] == 'discrete_SIR':
            import EoN
            kw = dict(tmin=r2.tmin, tmax=r2.tmax, return_full_data=cfg.get('full', False))
            kw.update(simruns.ic_kwargs(r2, True))
            ret2 = simruns.check_shape(h, r2, EoN.discrete_SIR(r2.G, (lambda u, v: contacts.get((u, v), False)), (), **kw))
        else:
            if hasattr(r, 'p'):
                _fix_p(r.p)
            ret2 = simruns.call_entry(h, r2, 'no-exception')
        if ret2 is None:
            return None
        return simruns.result_struct(simruns.outputs(r2, ret2), r2.nodes)
    st, res = h.call(second)
    if st == 'exc':
        if isinstance(res, UnmodelledRandomness):
            h.fail('closed-randomness', {'source': str(res)})
        else:
            h.fail('repeat-call-same-draws', {'exception': repr(res)[:300]})
        return a
    if res is None:
        return a
    cr = second.cr
    if cfg['entry'] in DISC and cfg.get('full'):
        pass    # the infector choice of the full-data mode is replayed too (it is part of log0)
    if cr.stub.i != len(log0):
        h.fail('repeat-call-same-draws', {'first_call_draws': len(log0), 'second_call_draws': cr.stub.i})
    else:
        h.require('repeat-call-same-draws', True)
    h.require('repeat-call-identical', struct_eq(a, res), {'first': show(a), 'second': show(res)})
    return a


_P = [None]


def _fix_p(p):
    """second call must use the same symbolic p: simruns draws it by name, so the same z3 constant results"""
    _P[0] = p


def run_repeat_simple(h, cfg):
    from checks import C03
    eng = symx.ENG
    r = C03.build(cfg)
    ret = C03.call(h, r, False)
    if ret is None:
        return None
    h.require('closed-randomness', True)
    a = [list(x) for x in ret]
    log0 = [e for e in eng.log if e[0] in DRAWS]
    stub = r.stub

    def second():
        cr = CheckingReplay(h, log0)
        cr.stub.truncate = stub.truncate
        second.cr = cr
        ret2 = C03.call(h, r, False)      # same graph, same specification graphs, same IC dict
        return None if ret2 is None else [list(x) for x in ret2]
    st, res = h.call(second)
    if st == 'exc' or res is None:
        if st == 'exc':
            h.fail('repeat-call-same-draws', {'exception': repr(res)[:300]})
        return {'ret': a}
    if second.cr.stub.i != len(log0):
        h.fail('repeat-call-same-draws', {'first_call_draws': len(log0), 'second_call_draws': second.cr.stub.i})
    else:
        h.require('repeat-call-same-draws', True)
    h.require('repeat-call-identical', struct_eq(a, res), {'first': show(a), 'second': show(res)})
    return {'ret': a}


def run_repeat_complex(h, cfg):
    from checks import C15
    eng = symx.ENG
    n0 = len(eng.log)
    out = C15.run_path(h, cfg)
    if out is None:
        return None
    h.require('closed-randomness', True)
    log0 = [e for e in eng.log[n0:] if e[0] in DRAWS]
    eng2_fresh = eng.fresh

    def second():
        # C15.run_path rebuilds everything by name (same z3 constants); only the random source is replayed
        import vlib.stubs as stubs
        real_install = stubs.install_sim
        import checks.C15 as m
        cr = [None]

        def install(stub=None, npproxy=None):
            cr[0] = CheckingReplay(h, log0)
            cr[0].stub.truncate = True
            cr[0].stub.truncated = False
            return cr[0].stub
        m.install_sim = install
        try:
            res = m.run_path(h, cfg)
        finally:
            m.install_sim = real_install
        second.cr = cr[0]
        return res
    st, res = h.call(second)
    if st == 'exc' or res is None:
        if st == 'exc':
            h.fail('repeat-call-same-draws', {'exception': repr(res)[:300]})
        return out
    if second.cr is None or second.cr.stub.i != len(log0):
        h.fail('repeat-call-same-draws', {'first_call_draws': len(log0)})
    else:
        h.require('repeat-call-same-draws', True)
    h.require('repeat-call-identical', struct_eq(out, res), {'first': show(out), 'second': show(res)})
    return out


# ---- hash seeds: NDSet ---------------------------------------------------------------------------------
class NDSet:
    """a set whose iteration order is an engine choice"""
    identity = True     # first run: insertion order

    def __init__(self, it=()):
        self._l = []
        for x in it:
            if x not in self._l:
                self._l.append(x)

    def __iter__(self):
        l = list(self._l)
        if NDSet.identity or len(l) < 2:
            return iter(l)
        perms = list(itertools.permutations(range(len(l))))
        i = symx.ENG.choose(len(perms), 'set-order')
        return iter([l[j] for j in perms[i]])

    def __len__(self): return len(self._l)
    def __contains__(self, x): return x in self._l
    def __bool__(self): return bool(self._l)

    def add(self, x):
        if x not in self._l:
            self._l.append(x)

    def discard(self, x):
        if x in self._l:
            self._l.remove(x)

    def remove(self, x): self._l.remove(x)

    def pop(self):
        l = list(iter(self))
        x = l[0]
        self._l.remove(x)
        return x

    def union(self, *others):
        r = NDSet(self._l)
        for o in others:
            for x in o:
                r.add(x)
        return r

    def intersection(self, *others):
        return NDSet([x for x in self._l if all(x in o for o in others)])

    def difference(self, *others):
        return NDSet([x for x in self._l if not any(x in o for o in others)])

    def update(self, *others):
        for o in others:
            for x in o:
                self.add(x)

    def copy(self): return NDSet(self._l)
    def __or__(self, o): return self.union(o)
    def __and__(self, o): return self.intersection(o)
    def __sub__(self, o): return self.difference(o)
    def __eq__(self, o): return set(self._l) == set(o)
    __hash__ = None

    def __repr__(self): return 'NDSet(%r)' % (self._l,)


_TRANSFORMED = [False]


class NXSetOrder:
    """networkx as seen by the transformed module: the functions that build a Python set from their node arguments and iterate it
    (edge_boundary, node_boundary: see their source) get that iteration order from the engine as well; everything else is networkx"""

    def __init__(self, real):
        self._real = real

    def __getattr__(self, name):
        return getattr(self._real, name)

    def edge_boundary(self, G, nbunch1, nbunch2=None, data=False, keys=False, default=None):
        nset1 = NDSet([n for n in nbunch1 if n in G])
        order = list(iter(nset1))
        if G.is_multigraph():
            edges = G.edges(order, data=data, keys=keys, default=default)
        else:
            edges = G.edges(order, data=data, default=default)
        if nbunch2 is None:
            return (e for e in edges if (e[0] in nset1) ^ (e[1] in nset1))
        nset2 = NDSet(nbunch2)
        return (e for e in edges if (e[0] in nset1 and e[1] in nset2) or (e[1] in nset1 and e[0] in nset2))

    def node_boundary(self, G, nbunch1, nbunch2=None):
        nset1 = NDSet([n for n in nbunch1 if n in G])
        bdy = NDSet([w for v in nset1._l for w in G[v] if w not in nset1])
        if nbunch2 is not None:
            bdy = NDSet([w for w in bdy._l if w in NDSet(nbunch2)])
        return bdy


def load_transformed():
    """re-load EoN.simulation from its current source with set displays/comprehensions turned into set(...) calls
    and the name `set` bound to NDSet"""
    if _TRANSFORMED[0]:
        return
    import EoN
    import EoN.simulation as sim

    class T(ast.NodeTransformer):
        def visit_Set(self, node):
            self.generic_visit(node)
            return ast.copy_location(ast.Call(func=ast.Name(id='set', ctx=ast.Load()), args=[ast.List(elts=node.elts, ctx=ast.Load())], keywords=[]), node)

        def visit_SetComp(self, node):
            self.generic_visit(node)
            return ast.copy_location(ast.Call(func=ast.Name(id='set', ctx=ast.Load()), args=[ast.ListComp(elt=node.elt, generators=node.generators)], keywords=[]), node)
    src = open(sim.__file__).read()
    tree = T().visit(ast.parse(src))
    ast.fix_missing_locations(tree)
    code = compile(tree, sim.__file__, 'exec')
    exec(code, sim.__dict__)
    sim.set = NDSet
    sim.nx = NXSetOrder(sim.nx)
    for name in dir(sim):
        if not name.startswith('__') and hasattr(EoN, name) and callable(getattr(sim, name)):
            setattr(EoN, name, getattr(sim, name))
    _TRANSFORMED[0] = True


def run_order(h, cfg):
    eng = symx.ENG
    load_transformed()
    simple = cfg['family'] == 'order-simple'
    NDSet.identity = True
    if simple:
        from checks import C03
        c2 = dict(cfg)
        r = C03.build(c2)
        ret = C03.call(h, r, False)
        if ret is None:
            return None
        a = [list(x) for x in ret]
    else:
        r = simruns.setup(cfg)
        ret = simruns.call_entry(h, r, 'no-exception')
        if ret is None:
            return None
        o = simruns.outputs(r, ret)
        a = simruns.result_struct(o, r.nodes)
    log0 = [e for e in eng.log if e[0] in DRAWS]

    def second():
        NDSet.identity = False
        try:
            if simple:
                from checks import C03
                cr = CheckingReplay(h, log0)
                cr.stub.truncate = r.stub.truncate
                second.cr = cr
                ret2 = C03.call(h, r, False)
                return None if ret2 is None else [list(x) for x in ret2]
            r2 = simruns.setup(cfg)
            r2.tmin, r2.tmax, r2.tau, r2.gamma = r.tmin, r.tmax, r.tau, r.gamma
            if hasattr(r, 'durations'):
                r2.replay_from = r
            second.cr = CheckingReplay(h, log0)
            ret2 = simruns.call_entry(h, r2, 'no-exception')
            if ret2 is None:
                return None
            return simruns.result_struct(simruns.outputs(r2, ret2), r2.nodes)
        finally:
            NDSet.identity = True
    st, res = h.call(second)
    if st == 'exc':
        h.fail('order-independent', {'exception': repr(res)[:300], 'why': 'with another set iteration order the run consumed different draws'})
        return a
    if res is None:
        return a
    if second.cr.stub.i != len(log0):
        h.fail('order-independent', {'first_call_draws': len(log0), 'second_call_draws': second.cr.stub.i})
    else:
        h.require('order-independent', struct_eq(a, res), {'insertion_order': show(a), 'other_order': show(res)})
    return a


def run_flag(h, cfg):
    """"the result is independent of whether full data is requested when its draws do not depend on that flag": the plain run, then
    the full-data run on the same draws (C10's machinery).  If the second run asks for other draws the clause's premise is false
    and nothing is claimed here (that the continuous-time simulators DO use the same draws is C10's statement)."""
    from checks import C10
    try:
        return C10.run_path(h, cfg)
    except Exception as e:
        if type(e).__name__ in ('DrawMismatch', 'ReplayDiverged'):
            h.require('full-data-flag-irrelevant', True)      # premise false: draws depend on the flag
            return None
        raise


def run_path(h, cfg):
    fam = cfg['family']
    if fam == 'flag':
        return run_flag(h, cfg)
    if fam == 'repeat':
        return run_repeat(h, cfg)
    if fam == 'repeat-simple':
        return run_repeat_simple(h, cfg)
    if fam == 'repeat-complex':
        return run_repeat_complex(h, cfg)
    return run_order(h, cfg)

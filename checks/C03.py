"""C03 -- Gillespie_simple_contagion realises exactly the user-specified transitions."""
import itertools
import networkx as nx
import z3
from vlib import symx, graphs, simruns, simobl, gillaw, refs
from vlib.symx import INF, EQ, LE, LT, AND, OR, NOT, show, Sym, lift
from vlib.stubs import RandomStub, NPProxy, install_sim

PROPERTY = 'C03'
EXPLANATION = ("Gillespie_simple_contagion is executed symbolically for a family of model specifications (SI, SIS, SIR, SIRS, "
               "SEIR, two competing strains, vaccination; plain rates, weight labels with symbolic node/edge weights, rate "
               "functions), undirected and DIRECTED contact networks, all initial status assignments of the bound, and every "
               "outcome of the draws up to E events.  The reference is the continuous-time Markov chain derived from the "
               "specification by an independent 30-line oracle.  Per reachable state z3 proves, for all rates and weights: "
               "clock rate = reference total rate; every event with positive probability is an enabled transition; each "
               "enabled transition has mass rate/total (interval of the scanned uniform draw x actor choice); no enabled "
               "transition is missing; exactly one node changes per row and counts follow; the run stops exactly when the "
               "reference total rate is zero.  The incremental bookkeeping of candidate pairs is thus checked through the "
               "total rate and the candidate lists handed to the selection primitive in every reachable state.")
BOUNDS = {'quick': '5 specifications x {K2, P3, K3 undirected; 4 digraphs on <=3 nodes} x representative initial assignments; <=3 events; weights: plain / weight_label / rate_function on SIS,SIR',
          'thorough': '7 specifications x G3 + all 16 digraphs on 3 nodes x all initial assignments with an active node; <=4 events'}
ASSUMPTIONS = ['floats as reals', 'rates > 0, weights > 0 symbolic', 'weighted candidate sets used through their abstraction (C16)',
               'event identity read from the actor handed back by the selection primitive and the returned count deltas (all statuses are returned)']
OPTS = {'quick': {'max_validate': 2, 'validate_every': 7, 'cfg_timeout': 200}, 'thorough': {'max_validate': 2, 'validate_every': 97, 'cfg_timeout': 1500}}
MUST_EVALUATE = {'quick': ['clock-rate', 'event-law', 'event-enabled', 'no-missing-event', 'absorbing-iff-zero-rate', 'one-node-changes', 'counts-track-statuses']}


def functions():
    import EoN.simulation as s
    return [s.Gillespie_simple_contagion, s._ListDict_.update, s._ListDict_.remove, s._ListDict_.total_weight]


SPECS = {
    # name: (statuses, spontaneous [(A,B,ratename)], induced [((A,B),(A,C),ratename)])
    'SI': (['S', 'I'], [], [(('I', 'S'), ('I', 'I'), 'tau')]),
    'SIS': (['S', 'I'], [('I', 'S', 'gamma')], [(('I', 'S'), ('I', 'I'), 'tau')]),
    'SIR': (['S', 'I', 'R'], [('I', 'R', 'gamma')], [(('I', 'S'), ('I', 'I'), 'tau')]),
    'SIRS': (['S', 'I', 'R'], [('I', 'R', 'gamma'), ('R', 'S', 'xi')], [(('I', 'S'), ('I', 'I'), 'tau')]),
    'SEIR': (['S', 'E', 'I', 'R'], [('E', 'I', 'sigma'), ('I', 'R', 'gamma')], [(('I', 'S'), ('I', 'E'), 'tau')]),
    'compete': (['S', 'I1', 'I2', 'R'], [('I1', 'R', 'g1'), ('I2', 'R', 'g2')], [(('I1', 'S'), ('I1', 'I1'), 't1'), (('I2', 'S'), ('I2', 'I2'), 't2')]),
    # rumour spreading (Maki-Thompson): a spreader meeting a spreader stifles it -- an induced transition between EQUAL statuses
    'rumour': (['S', 'I', 'R'], [], [(('I', 'S'), ('I', 'I'), 'tau'), (('I', 'I'), ('I', 'R'), 'sigma')]),
    'vacc': (['S', 'I', 'R', 'V'], [('S', 'V', 'nu'), ('I', 'R', 'gamma')], [(('I', 'S'), ('I', 'I'), 'tau')]),
}
DIGRAPHS_Q = ['D:2:01', 'D:3:01,12', 'D:3:01,10,12', 'D:3:01,12,20', 'D:3:02,12,20', 'D:3:01,12,11']      # the last one has a self-loop


def _ics(spec, n, tier):
    statuses = SPECS[spec][0]
    active = {'SI': 'I', 'SIS': 'I', 'SIR': 'I', 'SIRS': 'I', 'SEIR': 'I', 'compete': 'I1', 'vacc': 'I', 'rumour': 'I'}[spec]
    out = []
    if tier == 'thorough' and n <= 2:
        for a in itertools.product(statuses, repeat=n):
            if any(x in ('I', 'I1', 'I2', 'E') for x in a):
                out.append(list(a))
        return out
    if tier == 'thorough':
        # n = 3: every assignment over {susceptible, active, last status} with an active node, plus the quick ones
        sub = [statuses[0], active, statuses[-1]]
        for a in itertools.product(sub, repeat=n):
            if active in a and list(a) not in out:
                out.append(list(a))
    base = ['S'] * n
    for i in range(n):
        a = list(base)
        a[i] = active
        out.append(a)
    if n >= 2:
        a = list(base); a[0] = active; a[1] = statuses[-1]; out.append(a)
    if spec == 'compete' and n >= 2:
        a = list(base); a[0] = 'I1'; a[-1] = 'I2'; out.append(a)
    if spec == 'SEIR':
        a = list(base); a[0] = 'E'; out.append(a)
    if n >= 3:
        a = list(base); a[0] = active; a[2] = active; out.append(a)
    return out


def configs(tier):
    out = []
    E = 3 if tier == 'quick' else 4
    specs = ['SIS', 'SIR', 'SIRS', 'SEIR', 'compete', 'rumour'] if tier == 'quick' else list(SPECS)
    ugl = (['K2', 'K2+K1', 'P3', 'K3'] if tier == 'quick' else list(graphs.G3)) + ['P3loop']      # P3loop: a self-loop is not a contact
    dgl = DIGRAPHS_Q if tier == 'quick' else list(graphs.digraphs(2)) + list(graphs.digraphs(3))[:16:2] + DIGRAPHS_Q
    for spec in specs:
        for g in ugl + dgl:
            directed = g.startswith('D:')
            n = graphs.make(g, directed=directed).order()
            if directed and not graphs.make(g, directed=True).size():
                continue
            for ic in _ics(spec, n, tier):
                modes = ['plain']
                if spec in ('SIS', 'SIR') and (g in ('P3', 'K2', 'D:3:01,12', 'P3loop', 'D:3:01,10,12') or (tier == 'thorough' and g in ('K3', 'K2+K1', 'D:2:01', 'D:3:01,10,12'))) \
                        and ic in _ics(spec, n, 'quick'):
                    modes += ['weight_label', 'rate_function']
                for mode in modes:
                    out.append(dict(entry='Gillespie_simple_contagion', spec=spec, graph=g, directed=directed, ic=ic, mode=mode, full=False,
                                    max_expo=E, truncate=True, wstub='abstract', tmax='inf', tags=[spec, g, mode]))
                    if mode == 'plain' and g == 'P3':
                        # return_statuses in another order than the one the model was written in: the columns follow the request
                        out.append(dict(entry='Gillespie_simple_contagion', spec=spec, graph=g, directed=directed, ic=ic, mode=mode, full=False, return_order='reversed',
                                        max_expo=E, truncate=True, wstub='abstract', tmax='inf', tags=[spec, g, mode, 'return-order']))
                    if mode == 'rate_function' and g in ('P3', 'K2', 'D:3:01,12'):
                        out.append(dict(entry='Gillespie_simple_contagion', spec=spec, graph=g, directed=directed, ic=ic, mode=mode, full=False, kwargs=True,
                                        max_expo=E, truncate=True, wstub='abstract', tmax='inf', tags=[spec, g, mode, 'kwargs']))
                    if mode == 'plain' and g in ('P3', 'D:3:01,12') and spec in ('SIS', 'SIR', 'SEIR'):
                        # the documentation allows the transition graphs to mention only the statuses that have such a transition
                        out.append(dict(entry='Gillespie_simple_contagion', spec=spec, graph=g, directed=directed, ic=ic, mode=mode, full=False, minimal_spec=True,
                                        max_expo=E, truncate=True, wstub='abstract', tmax='inf', tags=[spec, g, mode, 'minimal-spec']))
    return out


def c09_configs(tier):
    out = []
    E = 3 if tier == 'quick' else 4
    for spec in (['SIS', 'SEIR', 'compete', 'rumour'] if tier == 'quick' else list(SPECS)):
        for g in (['P3', 'D:3:01,12,20', 'D:3:01,10,12'] if tier == 'quick' else ['P3', 'K3'] + DIGRAPHS_Q):      # (incl. a reciprocal directed pair)
            directed = g.startswith('D:')
            n = graphs.make(g, directed=directed).order()
            for ic in _ics(spec, n, 'quick')[:3]:
                out.append(dict(entry='Gillespie_simple_contagion', spec=spec, graph=g, directed=directed, ic=ic, mode='plain', full=True,
                                max_expo=E, truncate=True, tmax='inf', tags=['simple', spec, g]))
    return out


# ---------------------------------------------------------------------------------------------
def build(cfg):
    """graph, symbolic rates/weights, spec graphs, reference chain"""
    eng = symx.ENG
    import EoN
    import EoN.simulation as sim
    r = simruns.Run()
    r.cfg = cfg
    r.G = graphs.make(cfg['graph'], directed=cfg.get('directed', False))
    r.N = r.G.order()
    r.nodes = list(r.G.nodes())
    statuses, spont, induced = SPECS[cfg['spec']]
    r.statuses = list(reversed(statuses)) if cfg.get('return_order') == 'reversed' else statuses      # the order the columns are asked for
    rates = {}
    for (_, _, nm) in spont + induced:
        if nm not in rates:
            rates[nm] = eng.real(nm, lo=0, lo_strict=True)
    r.rates = rates
    mode = cfg.get('mode', 'plain')
    r.nw, r.ew = {}, {}
    if mode in ('weight_label', 'rate_function'):
        for u in r.G.nodes():
            r.nw[u] = eng.real('nw_%s' % (u,), lo=0, lo_strict=True)
            if mode == 'weight_label':
                r.G.nodes[u]['nwl'] = r.nw[u]
        for (u, v) in r.G.edges():
            w = eng.real('w_%s_%s' % (u, v), lo=0, lo_strict=True)
            r.ew[(u, v)] = w
            if not r.G.is_directed():
                # a weight label is an attribute of the undirected edge; a rate FUNCTION of (source, target) may depend on the
                # direction (e.g. on the source's infectiousness), so the two orientations get independent symbols
                r.ew[(v, u)] = w if mode == 'weight_label' else eng.real('w_%s_%s' % (v, u), lo=0, lo_strict=True)
            if mode == 'weight_label':
                r.G.edges[u, v]['ewl'] = w
    r.bad_kw = eng.real('rate_with_foreign_kwargs', lo=0, lo_strict=True) if cfg.get('kwargs') else None
    H = nx.DiGraph()
    if not cfg.get('minimal_spec'):
        H.add_nodes_from(statuses)
    J = nx.DiGraph()
    for (A, B, nm) in spont:
        kw = {'rate': rates[nm]}
        if mode == 'weight_label':
            kw['weight_label'] = 'nwl'
        elif mode == 'rate_function':
            if cfg.get('kwargs'):
                # spont_kwargs / nbr_kwargs are two different dictionaries: each rate function checks it received its own
                kw['rate_function'] = (lambda G, node, which=None: r.nw[node] if which == 'spont' else r.bad_kw)
            else:
                kw['rate_function'] = (lambda G, node: r.nw[node])
        H.add_edge(A, B, **kw)
    for (P, Q, nm) in induced:
        kw = {'rate': rates[nm]}
        if mode == 'weight_label':
            kw['weight_label'] = 'ewl'
        elif mode == 'rate_function':
            if cfg.get('kwargs'):
                kw['rate_function'] = (lambda G, source, target, which=None: r.ew[(source, target)] if which == 'nbr' else r.bad_kw)
            else:
                kw['rate_function'] = (lambda G, source, target: r.ew[(source, target)])
        J.add_edge(P, Q, **kw)
    r.H, r.J = H, J
    r.IC = {n: cfg['ic'][i] for i, n in enumerate(r.nodes)}
    r.tmin = eng.real('tmin')
    r.tmax = INF if cfg.get('tmax', 'inf') == 'inf' else eng.real('tmax')
    if r.tmax != INF and eng.mode == 'sym':
        eng.assume(lift(r.tmax) > lift(r.tmin))
    r.stub = RandomStub(max_expo=cfg.get('max_expo'), truncate=cfg.get('truncate', False), max_uniform_per_step=4, max_draws=200)
    install_sim(r.stub, NPProxy())
    gillaw.uninstall_weighted_choice_stub(sim)
    if cfg.get('wstub') == 'abstract':
        gillaw.install_abstract_weighted_set(sim)
    r.EoN, r.sim = EoN, sim
    r.chain = chain_of(cfg, r.G, rates, r.nw, r.ew)
    return r


def chain_of(cfg, G, rates, nw, ew):
    statuses, spont, induced = SPECS[cfg['spec']]
    weighted = cfg.get('mode', 'plain') != 'plain'
    sp = [(A, B, rates[nm], (lambda u: nw[u]) if weighted else None) for (A, B, nm) in spont]
    ind = [(P, Q, rates[nm], (lambda u, v: ew[(u, v)]) if weighted else None) for (P, Q, nm) in induced]
    return refs.SpecChain(G, sp, ind)


def call(h, r, full):
    f = r.EoN.Gillespie_simple_contagion
    extra = {}
    if r.cfg.get('kwargs'):
        extra = dict(spont_kwargs={'which': 'spont'}, nbr_kwargs={'which': 'nbr'})
    return h.call_must_succeed('no-exception', f, r.G, r.H, r.J, r.IC, tuple(r.statuses), tmin=r.tmin, tmax=r.tmax, return_full_data=full, **extra)


def rows_of(ret, statuses):
    t = list(ret[0])
    cols = {s: [int(x) for x in ret[i + 1]] for i, s in enumerate(statuses)}
    return t, cols


def structural(h, r, ret):
    """arrays: equal lengths, t0=tmin, increasing times, counts track statuses with exactly one node changing per row along a spec edge"""
    statuses = r.statuses
    if not isinstance(ret, (list, tuple)) or len(ret) != len(statuses) + 1:
        h.fail('arrays-returned', {'len': len(ret) if hasattr(ret, '__len__') else None})
        return None
    t, cols = rows_of(ret, statuses)
    n = len(t)
    if any(len(c) != n for c in cols.values()):
        h.fail('equal-lengths', {'lens': [n] + [len(c) for c in cols.values()]})
        return None
    h.require('t0=tmin', EQ(t[0], r.tmin), {'t0': show(t[0])})
    for i in range(n - 1):
        h.require('time-ordered', LT(t[i], t[i + 1]), {'i': i})
        h.require('t<tmax', LT(t[i + 1], r.tmax), {'i': i})
    from collections import Counter
    c0 = Counter(r.IC.values())
    if {s: cols[s][0] for s in statuses} != {s: c0.get(s, 0) for s in statuses}:
        h.fail('counts-track-statuses', {'row0': {s: cols[s][0] for s in statuses}, 'IC': dict(c0)})
        return None
    _, spont, induced = SPECS[r.cfg['spec']]
    legal = set((A, B) for (A, B, _) in spont) | set((P[1], Q[1]) for (P, Q, _) in induced)
    deltas = []
    for i in range(n - 1):
        d = {s: cols[s][i + 1] - cols[s][i] for s in statuses}
        minus = [s for s in statuses if d[s] == -1]
        plus = [s for s in statuses if d[s] == 1]
        if len(minus) != 1 or len(plus) != 1 or any(abs(v) > 1 for v in d.values()) or (minus[0], plus[0]) not in legal:
            h.fail('one-node-changes', {'row': i, 'delta': d})
            return None
        deltas.append((minus[0], plus[0]))
    h.require('one-node-changes', True)
    if all(sum(cols[s][i] for s in statuses) == r.N for i in range(n)):
        h.require('counts-track-statuses', True)
    else:
        h.fail('counts-track-statuses', {'why': 'sum != N'})
    return deltas


def run_path(h, cfg):
    r = build(cfg)
    ret = call(h, r, cfg.get('full', False))
    h.truncated = r.stub.truncated
    if ret is None:
        return None
    deltas = structural(h, r, ret)
    if deltas is None:
        return None
    t, cols = rows_of(ret, r.statuses)
    return {'t': t, 'cols': cols, 'deltas': [list(d) for d in deltas]}


def event_of_step(chosen, status, draws, k, out):
    if not chosen or out is None or k >= len(out['deltas']):
        return None
    actor = chosen[-1][1]
    old, new = out['deltas'][k]
    if isinstance(actor, tuple):
        return ('ind', actor[0], actor[1], new)
    return ('spont', actor, new)


def post(cfg, records, eng):
    G = graphs.make(cfg['graph'], directed=cfg.get('directed', False))
    statuses, spont, induced = SPECS[cfg['spec']]
    rates = {nm: Sym(z3.Real(nm)) for (_, _, nm) in spont + induced}
    nw = {u: Sym(z3.Real('nw_%s' % (u,))) for u in G.nodes()}
    ew = {}
    for (u, v) in G.edges():
        ew[(u, v)] = Sym(z3.Real('w_%s_%s' % (u, v)))
        if not G.is_directed():
            ew[(v, u)] = ew[(u, v)] if cfg.get('mode') == 'weight_label' else Sym(z3.Real('w_%s_%s' % (v, u)))
    chain = chain_of(cfg, G, rates, nw, ew)
    base = [lift(x) > 0 for x in rates.values()]
    if cfg.get('mode', 'plain') != 'plain':
        base += [lift(x) > 0 for x in nw.values()] + [z3.Real('w_%s_%s' % (u, v)) > 0 for (u, v) in G.edges()] + [z3.Real('w_%s_%s' % (v, u)) > 0 for (u, v) in G.edges()]
    nodes = list(G.nodes())
    status0 = {n: cfg['ic'][i] for i, n in enumerate(nodes)}
    return gillaw.analyse(records, base, chain, status0, event_of_step)


# ---- C09 / C04 helpers for the generic simulator ---------------------------------------------
def run_c09(h, cfg):
    from checks import C09
    r = build(cfg)
    r.I0, r.R0 = [], []
    sim = call(h, r, True)
    if sim is None:
        return None
    if not hasattr(sim, 'node_history'):
        h.fail('full-data-object-returned', {'got': type(sim).__name__})
        return None
    _, spont, induced = SPECS[cfg['spec']]
    spec = [(P[0], P[1], Q[1]) for (P, Q, _) in induced]
    ind_pairs = set((P[1], Q[1]) for (P, Q, _) in induced)
    C09.transmission_obligations(h, r, sim, discrete=False, sir=False, spec=spec, induced_statuses=ind_pairs)
    # completeness: every induced-only change has exactly one entry; count induced changes that cannot be spontaneous
    st, trans = h.call(sim.transmissions)
    if st == 'ok':
        sp_pairs = set((A, B) for (A, B, _) in spont)
        n_ind_only = 0
        for n in r.nodes:
            T, S = sim.node_history(n)
            n_ind_only += sum(1 for j in range(1, len(S)) if (S[j - 1], S[j]) in ind_pairs and (S[j - 1], S[j]) not in sp_pairs)
        if len([x for x in trans if x[1] is not None]) == n_ind_only or any(p in sp_pairs for p in ind_pairs):
            h.require('one-entry-per-induced-change', True)
        else:
            h.fail('one-entry-per-induced-change', {'entries': len(trans), 'induced_changes': n_ind_only})
    return {'hist': {str(n): [list(sim.node_history(n)[0]), list(sim.node_history(n)[1])] for n in r.nodes},
            'trans': [list(x) for x in trans] if st == 'ok' else None}

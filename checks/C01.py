"""C01 -- Markovian SIR simulators sample the exact network SIR process."""
import z3
from vlib import symx, graphs, simruns, simobl, gillaw, refs
from vlib.symx import INF, lift

PROPERTY = 'C01'
EXPLANATION = ("Gillespie_SIR is executed symbolically on every configuration of the bound with the random source as an "
               "engine-controlled stub, so the explored path tree contains every reachable epidemic state and every "
               "outcome of the draws.  From the real code's own draws and comparisons z3 derives, per reachable state, "
               "(a) the rate handed to the exponential clock and (b) the probability mass of every branch (interval "
               "lengths of the uniform draws, 1/n per uniform choice, w_i/sum w per weighted choice), and proves for ALL "
               "values of tau, gamma and the weights that the clock rate equals the reference chain's total rate, that "
               "each enabled event (recovery of u; transmission u->v) has mass rate/total, that no other event has "
               "positive mass, none is missing, and that the run stops exactly in absorbing states.  The weighted "
               "candidate sets' rejection loop is replaced by a logged weighted choice whose correctness is C16's "
               "inductive claim.  fast_SIR: see the sections 'fast_SIR' in the evidence (rates handed to the "
               "exponential draws, binomial/sample/truncated-exponential factorisation, truncated exponential contract); "
               "its deterministic part is C11.")
BOUNDS = {'quick': 'graphs G3 x all initial conditions (up to automorphism) x weights {none, edge+node}; all draw outcomes; every reachable state',
          'thorough': 'G3 + P4, S3, C4, paw (K4 unweighted) x all initial conditions x weights {none, edge, node, both}'}
ASSUMPTIONS = ['floats as reals', 'tau > 0, gamma > 0, weights > 0 symbolic (boundary rates 0 are covered by C04/C11 configurations)',
               'L1 first-passage percolation, L2 memorylessness, L3 rejection sampling (via C16), L4 Exp mod T',
               'event identity read from the item handed back by the selection primitive; cross-checked with the returned counts']
OPTS = {'quick': {'max_validate': 3, 'validate_every': 11}, 'thorough': {'max_validate': 3, 'validate_every': 101, 'cfg_timeout': 1500}}
MUST_EVALUATE = {'quick': ['clock-rate', 'event-law', 'no-missing-event', 'absorbing-iff-zero-rate', 'counts-follow-events', 'sampler-binomial-p', 'sampler-binomial-n',
                           'sampler-uniform-subset', 'sampler-truncexp', 'sampler-recipients', 'truncexp-contract', 'sampler-density-identity']}


def functions():
    import EoN, EoN.simulation as s
    return [s.Gillespie_SIR, s._ListDict_.update, s._ListDict_.remove, s._ListDict_.random_removal, s._ListDict_.total_weight,
            s.fast_SIR, s.fast_nonMarkov_SIR, s._process_trans_SIR_, s._process_rec_SIR_, s._trans_and_rec_time_Markovian_const_trans_,
            s._truncated_exponential_, EoN._get_rate_functions_, s.myQueue]


def configs(tier):
    out = []
    gl = list(graphs.G3) + ['K2loop', 'P3loop'] + (['P4', 'S3', 'C4', 'paw', 'K4'] if tier == 'thorough' else [])
    for g in gl:
        n, edges = graphs.ALL[g]
        if tier == 'quick':
            wl = ('none', 'both')
        else:
            wl = ('none', 'edge', 'node', 'both')
        for I0, R0 in graphs.automorphism_reduced_ics(g):
            for w in wl:
                if g == 'K4' and w != 'none':
                    continue
                if w in ('edge',) and not edges:
                    continue
                for full in (False, True):
                    if full and (n > 3 or w != 'none'):
                        continue      # the full-data mode consumes the same draws (C10); its law is checked unweighted
                    out.append(dict(entry='Gillespie_SIR', graph=g, I0=I0, R0=R0, weights=w, full=full, tmax='inf', wstub='abstract',
                                    tags=[g, 'w:' + w, 'full' if full else 'plain'] + (['R0'] if R0 else [])))
    # fast_SIR, constant-rate path: sampler factorisation
    for g in ['K2', 'P3', 'K3'] + (['S3', 'P4'] if tier == 'thorough' else []):
        for I0, R0 in graphs.automorphism_reduced_ics(g):
            if len(R0) > 1 or (tier == 'quick' and len(I0) > 1 and g != 'P3'):
                continue
            if g == 'S3' and I0 == [0] and not R0:
                continue      # the hub start with three free neighbours (all subsets x all orders x all delays) exceeds the budget
            for w in ('none', 'node'):
                out.append(dict(family='sampler', entry='fast_SIR', graph=g, I0=I0, R0=R0, weights=w, full=False, tmax='inf',
                                tags=['sampler', g, 'w:' + w] + (['R0'] if R0 else [])))
    # fast_SIR end to end: given the sampled durations / delays the output is first-passage percolation (C11's obligations)
    for g in ['K2', 'P3', 'K3'] + (['S3', 'P4'] if tier == 'thorough' else []):
        for I0, R0 in graphs.automorphism_reduced_ics(g):
            if len(R0) > 1 or (tier == 'quick' and len(I0) > 1 and g == 'K3'):
                continue
            if g == 'S3' and I0 == [0] and not R0:
                continue
            out.append(dict(family='fpp-const', entry='fast_SIR', graph=g, I0=I0, R0=R0, weights='none', full=True, tmax='inf',
                            tags=['fpp-const', g] + (['R0'] if R0 else [])))
            if g in ('K2', 'P3') and not R0 and len(I0) == 1:
                # finite symbolic horizon: everything strictly before tmax still happens (a node infectious at tmax keeps transmitting until then)
                out.append(dict(family='fpp-const', entry='fast_SIR', graph=g, I0=I0, R0=R0, weights='none', full=True, tmax='sym',
                                tags=['fpp-const', g, 'tmax']))
                out.append(dict(family='fpp-weighted', entry='fast_SIR', graph=g, I0=I0, R0=R0, weights='edge', full=True, tmax='sym', ties=False,
                                tags=['fpp-weighted', g, 'tmax']))
            if graphs.ALL[g][1] and len(I0) == 1:
                out.append(dict(family='fpp-weighted', entry='fast_SIR', graph=g, I0=I0, R0=R0, weights='edge', full=True, tmax='inf', ties=False,
                                tags=['fpp-weighted', g] + (['R0'] if R0 else [])))
    out.append(dict(family='truncexp', entry='_truncated_exponential_', tags=['truncexp']))
    out.append(dict(family='truncexp', entry='_truncated_exponential_', T='inf', tags=['truncexp', 'T=inf']))      # a node that never recovers
    for n in range(0, 4 if tier == 'quick' else 6):
        for k in range(0, n + 1):
            out.append(dict(family='density', entry='sampler density identity', n=n, k=k, tags=['density']))
    return out


def event_of_step(chosen, status, draws):
    if not chosen:
        return None
    item = chosen[-1][1]
    if isinstance(item, tuple):
        return ('trans', item[0], item[1])
    return ('rec', item)


def run_sampler(h, cfg):
    """fast_SIR constant-rate path: per newly infected node the code draws D ~ Exp(gamma w_u), K ~ Bin(n, 1-exp(-tau D)) with n = number of
    susceptible neighbours, a uniform K-subset of exactly those neighbours, and one TruncExp(tau, D) delay per recipient"""
    import z3 as _z3
    from vlib.symx import EQ, show, Sym, EXP
    eng = symx.ENG
    r = simruns.setup(cfg)
    real = r.sim._trans_and_rec_time_Markovian_const_trans_
    calls = []

    def spy(node, sus, tau, rec_rate_fxn):
        n0 = len(eng.log)
        out = real(node, sus, tau, rec_rate_fxn)
        calls.append((node, list(sus), tau, eng.log[n0:], out))
        return out
    r.sim._trans_and_rec_time_Markovian_const_trans_ = spy
    try:
        ret = simruns.call_entry(h, r, 'no-exception')
    finally:
        r.sim._trans_and_rec_time_Markovian_const_trans_ = real
    if ret is None:
        return None
    if not calls:
        h.fail('sampler-used', {'why': 'constant-rate sampler not reached'})
        return None
    status = {n: ('I' if n in r.I0 else 'R' if n in r.R0 else 'S') for n in r.nodes}
    for (node, sus, tau, log, out) in calls:
        draws = [e for e in log if e[0] in ('expo', 'binomial', 'sample', 'truncexp')]
        kinds = [e[0] for e in draws]
        if len(kinds) < 3 or kinds[0] != 'expo' or kinds[1] != 'binomial' or kinds[2] != 'sample' or any(k != 'truncexp' for k in kinds[3:]):
            # another (possibly correct) sampling scheme: this check can only read the duration/binomial/subset/truncated-delay one
            raise symx.Inconclusive('fast_SIR sampler does not follow the duration/binomial/sample/truncated-exponential protocol: %s' % kinds)
        ex, bi, sa, tr = draws[0], draws[1], draws[2], draws[3:]
        D = ex[2]
        h.require('sampler-duration-rate', EQ(ex[1], simruns.rec_rate(r, node)), {'node': str(node), 'rate_used': show(ex[1])})
        h.require('sampler-tau', EQ(tau, r.tau), {'tau_used': show(tau)})
        # the susceptible neighbours handed in are exactly the neighbours not yet infected / recovered
        want_sus = sorted([v for v in r.G.neighbors(node)], key=str)
        if not set(sus) <= set(want_sus):
            h.fail('sampler-binomial-n', {'node': str(node), 'sus': [str(x) for x in sus]})
        n_ = bi[1]
        if n_ != len(sus):
            h.fail('sampler-binomial-n', {'node': str(node), 'n': n_, 'susceptible_neighbours': len(sus)})
        else:
            h.require('sampler-binomial-n', True)
        pexpr = bi[2]
        if n_ > 0:        # with no susceptible neighbour the success probability is irrelevant
            if eng.mode == 'sym':
                want_p = 1 - Sym(EXP(_z3.simplify(-(symx.lift(r.tau) * symx.lift(D)))))
                h.require('sampler-binomial-p', EQ(pexpr, want_p), {'p_used': show(pexpr), 'reference': show(want_p)})
            else:
                import math as _m
                want_p = 1 - _m.exp(-float(r.tau) * float(D))
                h.require('sampler-binomial-p', abs(float(pexpr) - want_p) < 1e-9, {'p_used': float(pexpr), 'reference': want_p})
        k_ = bi[3]
        if list(sa[1]) != list(sus) or sa[2] != k_:
            h.fail('sampler-uniform-subset', {'population': [str(x) for x in sa[1]], 'k': sa[2], 'binomial': k_})
        else:
            h.require('sampler-uniform-subset', True)
        recips = [sa[1][j] for j in sa[3]]
        if len(tr) != k_:
            h.fail('sampler-truncexp', {'recipients': k_, 'truncated_draws': len(tr)})
        else:
            ok = True
            for e in tr:
                ok = ok and h.require('sampler-truncexp', symx.AND(EQ(e[1], r.tau), EQ(e[2], D)), {'rate': show(e[1]), 'T': show(e[2])})
        delays, dur = out
        if sorted(delays, key=str) != sorted(recips, key=str):
            h.fail('sampler-recipients', {'delays_for': [str(x) for x in delays], 'sampled': [str(x) for x in recips]})
        else:
            h.require('sampler-recipients', symx.AND(EQ(dur, D), *[EQ(delays[v], tr[i][3]) for i, v in enumerate(recips)]), None)
    o = simruns.outputs(r, ret)
    return simruns.result_struct(o, r.nodes)


def run_fpp_const(h, cfg):
    """fast_SIR, constant-rate path, full data: with the sampled (duration, delays to the sampled recipients) per infected node the
    history must be first-passage percolation (a neighbour that was not sampled has delay +inf)"""
    from checks import C11
    from vlib.symx import INF
    eng = symx.ENG
    r = simruns.setup(cfg)
    real = r.sim._trans_and_rec_time_Markovian_const_trans_
    dur, dl = {}, {}

    def spy(node, sus, tau, rec_rate_fxn):
        delays, d = real(node, sus, tau, rec_rate_fxn)
        dur[node] = d
        for v in r.G.neighbors(node):
            dl[(node, v)] = delays[v] if v in delays else INF
        return delays, d
    r.sim._trans_and_rec_time_Markovian_const_trans_ = spy
    try:
        ret = simruns.call_entry(h, r, 'no-exception')
    finally:
        r.sim._trans_and_rec_time_Markovian_const_trans_ = real
    if ret is None:
        return None
    # nodes that were never infected never had a duration / delays drawn: they cannot be on a path anyway (give them +inf out-delays)
    for u in r.G.nodes():
        if u not in dur:
            dur[u] = 0
            for v in r.G.neighbors(u):
                dl[(u, v)] = INF
    C11.fpp_obligations(h, r, ret, dur, dl)
    o = simruns.outputs(r, ret)
    return simruns.result_struct(o, r.nodes)


def run_truncexp(h, cfg):
    """the real _truncated_exponential_: for t = Exp draw, T > 0 the result r satisfies 0 <= r < T and t = r + k T for an integer k >= 0 (L4 gives the law)"""
    import z3 as _z3
    from vlib.symx import LE, LT, AND, Sym
    eng = symx.ENG
    r = simruns.setup(dict(entry='fast_SIR', graph='K2', I0=[0], R0=[], trunc_stub=False, tags=[]))
    T = INF if cfg.get('T') == 'inf' else eng.real('T', lo=0, lo_strict=True)
    rate = eng.real('rate', lo=0, lo_strict=True)
    n0 = len(eng.log)
    if cfg.get('T') == 'inf':
        st, res = h.call(r.sim._truncated_exponential_, rate, T)
        if st == 'exc':
            # (0*Inf = nan cannot enter a symbolic term: same failure as a nan result in the concrete replay)
            h.fail('truncexp-contract', {'T': 'inf', 'result': 'not a number', 'exception': repr(res)[:120]})
            return None
    else:
        res = h.call_must_succeed('no-exception', r.sim._truncated_exponential_, rate, T)
    if res is None:
        return None
    if cfg.get('T') == 'inf':
        # nothing to truncate: the result is the exponential draw itself (in particular a number, not nan)
        ex = [e for e in eng.log[n0:] if e[0] == 'expo']
        ok = len(ex) == 1 and not (isinstance(res, float) and res != res)
        if not ok:
            h.fail('truncexp-contract', {'T': 'inf', 'result': repr(res)[:60], 'draws': len(ex)})
            return None
        h.require('truncexp-rate', symx.EQ(ex[0][1], rate), None)
        h.require('truncexp-contract', symx.EQ(res, ex[0][2]), {'T': 'inf', 'r': symx.show(res), 't': symx.show(ex[0][2])})
        return {'r': res}
    ex = [e for e in eng.log[n0:] if e[0] == 'expo']
    if len(ex) != 1:
        h.fail('truncexp-contract', {'draws': len(ex)})
        return None
    t = ex[0][2]
    h.require('truncexp-rate', symx.EQ(ex[0][1], rate), None)
    h.require('truncexp-contract', AND(LE(0, res), LT(res, T)), {'r': symx.show(res)})
    if eng.mode == 'sym':
        k = _z3.Int('k_trunc')
        ok, m = eng.prove(_z3.Exists([k], _z3.And(k >= 0, symx.lift(t) == symx.lift(res) + _z3.ToReal(k) * symx.lift(T))))
        h.require('truncexp-contract', ok, {'what': 't = r + k T for some integer k >= 0'})
    return {'r': res}


def run_density(h, cfg):
    """C(n,k)(1-E)^k E^(n-k) * 1/(n!/(n-k)!) * k! * prod f_v/(1-E) = E^(n-k) prod f_v : the sampler's joint density equals that of independent Exp(tau)
    clocks per neighbour kept iff < D (E = exp(-tau D), f_v = tau exp(-tau x_v))"""
    import math
    from vlib.symx import EQ
    eng = symx.ENG
    n, k = cfg['n'], cfg['k']
    E = eng.real('E', lo=0, hi=1, lo_strict=True, hi_strict=True)
    fs = [eng.real('f%d' % i, lo=0, lo_strict=True) for i in range(k)]
    lhs = math.comb(n, k) * (1 - E) ** k * E ** (n - k)
    lhs = lhs * (1 / symx.Sym(symx.lift(math.perm(n, k)))) * math.factorial(k)
    for f in fs:
        lhs = lhs * (f / (1 - E))
    rhs = E ** (n - k)
    for f in fs:
        rhs = rhs * f
    h.require('sampler-density-identity', EQ(lhs, rhs), {'n': n, 'k': k})
    return None


def run_path(h, cfg):
    fam = cfg.get('family')
    if fam == 'sampler':
        return run_sampler(h, cfg)
    if fam == 'truncexp':
        return run_truncexp(h, cfg)
    if fam == 'fpp-const':
        return run_fpp_const(h, cfg)
    if fam == 'fpp-weighted':
        from checks import C11
        return C11.run_fpp(h, cfg)
    if fam == 'density':
        return run_density(h, cfg)
    r = simruns.setup(cfg)
    ret = simruns.call_entry(h, r, 'no-exception')
    if ret is None:
        return None
    o = simruns.outputs(r, ret)
    # the returned counts must follow the events read off the draws (ties the law check to the output)
    eng = symx.ENG
    if True:
        _, steps = gillaw.split_steps(eng.log)
        S, I, R = r.N - len(r.I0) - len(r.R0), len(r.I0), len(r.R0)
        rows = [(S, I, R)]
        for st in steps:
            ch = [d for d in st['draws'] if d[0] in ('choice', 'wchoice')]
            if not ch:
                break
            d = ch[-1]
            item = d[1][d[2]] if d[0] == 'choice' else d[1][d[3]]
            if isinstance(item, tuple):
                S, I = S - 1, I + 1
            else:
                I, R = I - 1, R + 1
            rows.append((S, I, R))
        arr = simobl.arrays_of_sim(o) if o.full else o.arrays
        got = list(zip([int(x) for x in arr['S']], [int(x) for x in arr['I']], [int(x) for x in arr['R']]))
        if got == rows:
            h.require('counts-follow-events', True)
        else:
            h.fail('counts-follow-events', {'from_draws': rows, 'returned': got})
    return simruns.result_struct(o, r.nodes)


def base_assumptions(cfg):
    G = graphs.make(cfg['graph'])
    base = [z3.Real('tau') > 0, z3.Real('gamma') > 0]
    if cfg['weights'] in ('edge', 'both'):
        base += [z3.Real('w_%s_%s' % (u, v)) > 0 for u, v in G.edges()]
    if cfg['weights'] in ('node', 'both'):
        base += [z3.Real('nw_%s' % (u,)) > 0 for u in G.nodes()]
    return base


def post(cfg, records, eng):
    if cfg.get('family') in ('sampler', 'truncexp', 'density', 'fpp-const', 'fpp-weighted'):
        return None
    G = graphs.make(cfg['graph'])
    tau, gamma = symx.Sym(z3.Real('tau')), symx.Sym(z3.Real('gamma'))

    def tr(u, v):
        if cfg['weights'] in ('edge', 'both'):
            a, b = (u, v) if G.has_edge(u, v) and ('w_%s_%s' % (u, v)) in names else (v, u)
            return tau * symx.Sym(z3.Real('w_%s_%s' % (a, b)))
        return tau
    names = set('w_%s_%s' % (u, v) for u, v in G.edges())

    def rr(u):
        if cfg['weights'] in ('node', 'both'):
            return gamma * symx.Sym(z3.Real('nw_%s' % (u,)))
        return gamma
    chain = refs.SIRChain(G, tr, rr, sis=False)
    status0 = {n: 'S' for n in G.nodes()}
    for i in cfg['I0']:
        status0[i] = 'I'
    for i in cfg['R0']:
        status0[i] = 'R'
    return gillaw.analyse(records, base_assumptions(cfg), chain, status0, event_of_step)

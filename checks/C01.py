"""C01 -- Markovian SIR simulators sample the exact network SIR process."""
import z3
from vlib import symx, graphs, simruns, simobl, gillaw, refs
from vlib.symx import INF, lift

PROPERTY = 'C01'
EXPLANATION = ("Gillespie_SIR is executed symbolically on every configuration of the bound with the random source as an "
               "engine-controlled stub, so the explored path tree contains every reachable epidemic state and every "
               "outcome of the draws.  From the real code's own draws and comparisons z3 derives, per reachable state, "
               "(a) the rate handed to the exponential clock and (b) the probability mass of every branch (interval "
               "lengths of the uniform draws, 1/n per uniform choice, w_i/sum w per weighted choice), and proves for ALL "
               "values of tau, gamma and the weights that the clock rate equals the reference chain's total rate, that "
               "each enabled event (recovery of u; transmission u->v) has mass rate/total, that no other event has "
               "positive mass, none is missing, and that the run stops exactly in absorbing states.  The weighted "
               "candidate sets' rejection loop is replaced by a logged weighted choice whose correctness is C16's "
               "inductive claim.  fast_SIR: see the sections 'fast_SIR' in the evidence (rates handed to the "
               "exponential draws, binomial/sample/truncated-exponential factorisation, truncated exponential contract); "
               "its deterministic part is C11.")
BOUNDS = {'quick': 'graphs G3 x all initial conditions (up to automorphism) x weights {none, edge+node}; all draw outcomes; every reachable state',
          'thorough': 'G3 + P4, S3, C4, paw (K4 unweighted) x all initial conditions x weights {none, edge, node, both}'}
ASSUMPTIONS = ['floats as reals', 'tau > 0, gamma > 0, weights > 0 symbolic (boundary rates 0 are covered by C04/C11 configurations)',
               'L1 first-passage percolation, L2 memorylessness, L3 rejection sampling (via C16), L4 Exp mod T',
               'event identity read from the item handed back by the selection primitive; cross-checked with the returned counts']
OPTS = {'quick': {'max_validate': 3, 'validate_every': 11}, 'thorough': {'max_validate': 3, 'validate_every': 101}}
MUST_EVALUATE = {'quick': ['clock-rate', 'event-law', 'no-missing-event', 'absorbing-iff-zero-rate', 'counts-follow-events']}


def functions():
    import EoN, EoN.simulation as s
    return [s.Gillespie_SIR, s._ListDict_.update, s._ListDict_.remove, s._ListDict_.random_removal, s._ListDict_.total_weight,
            s.fast_SIR, s.fast_nonMarkov_SIR, s._process_trans_SIR_, s._process_rec_SIR_, s._trans_and_rec_time_Markovian_const_trans_,
            s._truncated_exponential_, EoN._get_rate_functions_, s.myQueue]


def configs(tier):
    out = []
    gl = list(graphs.G3) + (['P4', 'S3', 'C4', 'paw', 'K4'] if tier == 'thorough' else [])
    for g in gl:
        n, edges = graphs.ALL[g]
        if tier == 'quick':
            wl = ('none', 'both')
        else:
            wl = ('none', 'edge', 'node', 'both')
        for I0, R0 in graphs.automorphism_reduced_ics(g):
            for w in wl:
                if g == 'K4' and w != 'none':
                    continue
                if w in ('edge',) and not edges:
                    continue
                for full in (False, True):
                    if full and (n > 3 or w != 'none'):
                        continue      # the full-data mode consumes the same draws (C10); its law is checked unweighted
                    out.append(dict(entry='Gillespie_SIR', graph=g, I0=I0, R0=R0, weights=w, full=full, tmax='inf', wstub='abstract',
                                    tags=[g, 'w:' + w, 'full' if full else 'plain'] + (['R0'] if R0 else [])))
    return out


def event_of_step(chosen, status, draws):
    if not chosen:
        return None
    item = chosen[-1][1]
    if isinstance(item, tuple):
        return ('trans', item[0], item[1])
    return ('rec', item)


def run_path(h, cfg):
    r = simruns.setup(cfg)
    ret = simruns.call_entry(h, r, 'no-exception')
    if ret is None:
        return None
    o = simruns.outputs(r, ret)
    # the returned counts must follow the events read off the draws (ties the law check to the output)
    eng = symx.ENG
    if True:
        _, steps = gillaw.split_steps(eng.log)
        S, I, R = r.N - len(r.I0) - len(r.R0), len(r.I0), len(r.R0)
        rows = [(S, I, R)]
        for st in steps:
            ch = [d for d in st['draws'] if d[0] in ('choice', 'wchoice')]
            if not ch:
                break
            d = ch[-1]
            item = d[1][d[2]] if d[0] == 'choice' else d[1][d[3]]
            if isinstance(item, tuple):
                S, I = S - 1, I + 1
            else:
                I, R = I - 1, R + 1
            rows.append((S, I, R))
        arr = simobl.arrays_of_sim(o) if o.full else o.arrays
        got = list(zip([int(x) for x in arr['S']], [int(x) for x in arr['I']], [int(x) for x in arr['R']]))
        if got == rows:
            h.require('counts-follow-events', True)
        else:
            h.fail('counts-follow-events', {'from_draws': rows, 'returned': got})
    return simruns.result_struct(o, r.nodes)


def base_assumptions(cfg):
    G = graphs.make(cfg['graph'])
    base = [z3.Real('tau') > 0, z3.Real('gamma') > 0]
    if cfg['weights'] in ('edge', 'both'):
        base += [z3.Real('w_%s_%s' % (u, v)) > 0 for u, v in G.edges()]
    if cfg['weights'] in ('node', 'both'):
        base += [z3.Real('nw_%s' % (u,)) > 0 for u in G.nodes()]
    return base


def post(cfg, records, eng):
    G = graphs.make(cfg['graph'])
    tau, gamma = symx.Sym(z3.Real('tau')), symx.Sym(z3.Real('gamma'))

    def tr(u, v):
        if cfg['weights'] in ('edge', 'both'):
            a, b = (u, v) if G.has_edge(u, v) and ('w_%s_%s' % (u, v)) in names else (v, u)
            return tau * symx.Sym(z3.Real('w_%s_%s' % (a, b)))
        return tau
    names = set('w_%s_%s' % (u, v) for u, v in G.edges())

    def rr(u):
        if cfg['weights'] in ('node', 'both'):
            return gamma * symx.Sym(z3.Real('nw_%s' % (u,)))
        return gamma
    chain = refs.SIRChain(G, tr, rr, sis=False)
    status0 = {n: 'S' for n in G.nodes()}
    for i in cfg['I0']:
        status0[i] = 'I'
    for i in cfg['R0']:
        status0[i] = 'R'
    return gillaw.analyse(records, base_assumptions(cfg), chain, status0, event_of_step)

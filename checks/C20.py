"""C20 -- time-series and degree-distribution helpers have exact step/moment semantics."""
import itertools
from fractions import Fraction
import numpy as np
import networkx as nx
import z3
from vlib import symx, graphs, odex
from vlib.symx import Sym, EQ, LE, LT, AND, OR, NOT, IMPL, show, lift
from vlib.stubs import RandomStub, NPProxy, install_sim

PROPERTY = 'C20'
EXPLANATION = ("subsample / get_time_shift are executed symbolically on lists of every length combination of the bound whose ENTRIES "
               "are z3 reals (report times, observation times, series values, threshold), with the documented preconditions (both "
               "time lists ordered, ties and repeats allowed, report_times[0] >= times[0]; threshold reached): every path forks on the "
               "real code's own comparisons and z3 proves each returned value equals the reference 'value of the last observation at "
               "or before the report time' (identically for 1, 2 and 3 series) resp. 'first time at which the series reaches the "
               "threshold'.  get_PGF/Prime/DPrime are executed with symbolic P_k and symbolic x: z3 proves psi(1)=sum P_k, "
               "psi'(1)=sum k P_k, psi''(1)=sum k(k-1)P_k and, by symbolic differentiation of the returned terms, that each helper is "
               "the derivative of the previous one.  estimate_R0 with symbolic tau, gamma (or transmissibility) equals "
               "T<k^2-k>/<k> on every graph of the bound.  get_Pk / get_Pnk: every graph with <= 4 nodes (no isolated-only), sums and "
               "histogram entries compared exactly (enumeration, no numeric unknowns).")
BOUNDS = {'quick': 'lists of length <= 3 (report) x <= 3 (observations); PGF support K <= 4; all graphs on <= 4 nodes',
          'thorough': 'lists of length <= 4 x <= 4; K <= 6; adds 5-node graphs for get_Pk/get_Pnk'}
ASSUMPTIONS = ['floats as reals', 'preconditions as documented (ordered time lists, report_times[0] >= times[0]; threshold reached for get_time_shift)']
OPTS = {'quick': {'max_validate': 2, 'validate_every': 9}, 'thorough': {'max_validate': 2, 'validate_every': 199, 'cfg_timeout': 1200}}
MUST_EVALUATE = {'quick': ['subsample=last-observation', 'multi-series-identical', 'time-shift=first-crossing', 'psi(1)', "psi'(1)", "psi''(1)",
                           'derivative-chain', 'R0-formula', 'Pk-sums-to-1', 'Pk=histogram', 'Pnk-rows-sum-to-1']}


def functions():
    import EoN.auxiliary as a
    import EoN.analytic as an
    return [a.subsample, a.get_time_shift, an.get_Pk, an.get_PGF, an.get_PGFPrime, an.get_PGFDPrime, an.get_Pnk, an.estimate_R0]


def all_graphs(n):
    pairs = list(itertools.combinations(range(n), 2))
    seen = set()
    for k in range(len(pairs) + 1):
        for es in itertools.combinations(pairs, k):
            key = min(tuple(sorted(tuple(sorted((p[a], p[b]))) for a, b in es)) for p in itertools.permutations(range(n)))
            if key in seen:
                continue
            seen.add(key)
            yield (n, list(es))


def configs(tier):
    out = []
    L = 3 if tier == 'quick' else 4
    for nr in range(1, L + 1):
        for nt in range(1, L + 1):
            for ns in (1, 2, 3):
                if ns > 1 and (nr > 2 or nt > 2) and tier == 'quick':
                    continue
                out.append(dict(family='subsample', nr=nr, nt=nt, nseries=ns, tags=['subsample']))
    for grid in ('list', 'range', 'arange'):
        for ns in (1, 2, 3):
            out.append(dict(family='subsample', nr=3, nt=4, nseries=ns, concrete=grid, tags=['subsample', 'integer-report-grid']))
    for n in range(1, L + 2):
        out.append(dict(family='timeshift', n=n, tags=['timeshift']))
    for K in range(0, (4 if tier == 'quick' else 6) + 1):
        out.append(dict(family='pgf', K=K, tags=['pgf']))
    gl = [g for n in (2, 3, 4) for g in all_graphs(n)] + ([g for g in all_graphs(5)] if tier == 'thorough' else [])
    for (n, es) in gl:
        if not es:
            continue
        out.append(dict(family='graph', n=n, edges=[list(e) for e in es], tags=['graph']))
    # the same graph object, edited between two calls without changing its node and edge counts
    out.append(dict(family='graph-edited', n=4, edges=[[0, 1], [1, 2], [2, 3]], rewire=[[2, 3], [1, 3]], tags=['graph', 'edited-between-calls']))
    out.append(dict(family='graph-edited', n=4, edges=[[0, 1], [0, 2], [0, 3]], rewire=[[0, 3], [2, 3]], tags=['graph', 'edited-between-calls']))
    # self-loops: networkx counts a loop twice in the degree, and "degree" is what the helpers are documented to use
    for n, es in ((2, [(0, 1), (0, 0)]), (3, [(0, 1), (1, 2), (1, 1)]), (3, [(0, 1), (1, 2), (2, 2)]), (4, [(0, 1), (1, 2), (2, 3), (0, 0), (3, 3)])):
        out.append(dict(family='graph', n=n, edges=[list(e) for e in es], loops=True, tags=['graph', 'self-loops']))
    return out


def run_path(h, cfg):
    eng = symx.ENG
    import EoN
    import EoN.auxiliary as aux
    import EoN.analytic as an
    fam = cfg['family']
    install_sim(RandomStub(), NPProxy())
    if fam == 'subsample':
        nr, nt, ns = cfg['nr'], cfg['nt'], cfg['nseries']
        rt = [eng.real('r%d' % i) for i in range(nr)]
        tt = [eng.real('t%d' % i) for i in range(nt)]
        series = [[eng.real('s%d_%d' % (k, i)) for i in range(nt)] for k in range(ns)]
        if cfg.get('concrete'):
            # the usual way of calling it: an integer report grid (range / arange / list of ints) and real-valued series
            rt = {'list': list(range(nr)), 'range': range(nr), 'arange': np.arange(nr)}[cfg['concrete']]
            tt = [0.5 * i for i in range(nt)]
            series = [[0.25 + 0.5 * i + k for i in range(nt)] for k in range(ns)]
        for a, b in zip(rt, rt[1:]):
            eng.assume(lift(a) <= lift(b)) if eng.mode == 'sym' else None
        for a, b in zip(tt, tt[1:]):
            eng.assume(lift(a) <= lift(b)) if eng.mode == 'sym' else None
        if eng.mode == 'sym':
            eng.assume(lift(rt[0]) >= lift(tt[0]))
        res = h.call_must_succeed('no-exception', aux.subsample, rt, tt, *series)
        if res is None:
            return None
        outs = [res] if ns == 1 else list(res)
        if len(outs) != ns:
            h.fail('multi-series-identical', {'returned': len(outs), 'series': ns})
            return None
        for k in range(ns):
            got = list(outs[k])
            if len(got) != nr:
                h.fail('subsample=last-observation', {'len': len(got), 'reports': nr})
                continue
            for j in range(nr):
                for i in range(nt):
                    c = LE(tt[i], rt[j])
                    if i + 1 < nt:
                        c = AND(c, LT(rt[j], tt[i + 1]))
                    h.require('subsample=last-observation' if k == 0 else 'multi-series-identical', IMPL(c, EQ(got[j], series[k][i])),
                              {'report': j, 'obs': i, 'series': k})
        return {'out': [list(o) for o in outs]}
    if fam == 'timeshift':
        n = cfg['n']
        tt = [eng.real('t%d' % i) for i in range(n)]
        LL = [eng.real('L%d' % i) for i in range(n)]
        thr = eng.real('thr')
        if eng.mode == 'sym':
            eng.assume(z3.Or(*[lift(x) >= lift(thr) for x in LL]))
        res = h.call_must_succeed('no-exception', aux.get_time_shift, tt, LL, thr)
        if res is None:
            return None
        for i in range(n):
            c = AND(LE(thr, LL[i]), *[LT(LL[j], thr) for j in range(i)])
            h.require('time-shift=first-crossing', IMPL(c, EQ(res, tt[i])), {'i': i})
        return {'t': res}
    if fam == 'pgf':
        K = cfg['K']
        eng.div_guard = False
        try:
            Pk = {k: eng.real('P%d' % k, lo=0) for k in range(K + 1)}
            x = eng.real('x', lo=0, lo_strict=True, hi=1)
            psi, psiP, psiPP = an.get_PGF(Pk), an.get_PGFPrime(Pk), an.get_PGFDPrime(Pk)
            one = 1
            s0 = sum((Pk[k] for k in Pk), 0)
            s1 = sum((k * Pk[k] for k in Pk), 0)
            s2 = sum((k * (k - 1) * Pk[k] for k in Pk), 0)
            prover = odex.IdProver(list(eng.pc))
            for nm, f, want in (('psi(1)', psi, s0), ("psi'(1)", psiP, s1), ("psi''(1)", psiPP, s2)):
                st, v = h.call(f, one)
                if st == 'exc':
                    h.fail(nm + ':' + type(v).__name__, {'exception': repr(v)[:200]})
                    continue
                ok, m = prover.equal(v, want)
                if ok:
                    h.require(nm, True)
                else:
                    h.record_failure(nm, {'got': show(v), 'want': show(want)}, odex.model_values(m))
            vx, vpx, vppx = psi(x), psiP(x), psiPP(x)
            for nm, a, b in (("psi -> psi'", vx, vpx), ("psi' -> psi''", vpx, vppx)):
                d = odex.zdiff(z3.simplify(lift(a)), lift(x))
                ok, m = prover.equal(d, b)
                if ok:
                    h.require('derivative-chain', True)
                else:
                    h.record_failure('derivative-chain', {'which': nm, 'd/dx': str(d)[:200], 'helper': show(b)}, odex.model_values(m))
            want_x = sum((Pk[k] * x ** k for k in Pk), 0)
            ok, m = prover.equal(vx, want_x)
            if ok:
                h.require('psi(x)=sum Pk x^k', True)
            else:
                h.record_failure('psi(x)=sum Pk x^k', {'got': show(vx)}, odex.model_values(m))
            # a second distribution on the SAME degrees with other proportions: the helpers describe the distribution they are given
            Qk = {k: eng.real('Q%d' % k, lo=0) for k in Pk}
            if Qk:
                psi2, psiP2 = an.get_PGF(Qk), an.get_PGFPrime(Qk)
                prover2 = odex.IdProver(list(eng.pc))
                for nm, got, want in (('psi(x)=sum Pk x^k', psi2(x), sum((Qk[k] * x ** k for k in Qk), 0)),
                                      ("psi'(1)", psiP2(1), sum((k * Qk[k] for k in Qk), 0))):
                    ok, m = prover2.equal(got, want)
                    if ok:
                        h.require(nm, True)
                    else:
                        h.record_failure(nm, {'call': 'second distribution on the same degrees', 'got': show(got)[:200], 'want': show(want)[:200]}, odex.model_values(m))
        finally:
            eng.div_guard = True
        return {'K': K}
    if fam == 'graph-edited':
        G = nx.Graph()
        G.add_nodes_from(range(cfg['n']))
        G.add_edges_from([tuple(e) for e in cfg['edges']])
        for stage in ('first call', 'after the edit'):
            Pk = h.call_must_succeed('no-exception', an.get_Pk, G)
            if Pk is None:
                return None
            deg = dict(G.degree())
            hist = {}
            for v in G:
                hist[deg[v]] = hist.get(deg[v], 0) + 1
            if set(Pk) == set(hist) and all(abs(Pk[k] - hist[k] / G.order()) < 1e-12 for k in hist):
                h.require('Pk=histogram', True)
            else:
                h.fail('Pk=histogram', {'stage': stage, 'Pk': {str(k): float(v) for k, v in Pk.items()}, 'histogram': hist})
                return None
            st, R0 = h.call(an.estimate_R0, G, transmissibility=Fraction(1, 2))
            k1 = Fraction(sum(deg.values()), G.order())
            k2 = Fraction(sum(d * (d - 1) for d in deg.values()), G.order())
            if st == 'exc' or abs(float(R0) - float(Fraction(1, 2) * k2 / k1)) > 1e-12:
                h.fail('R0-formula', {'stage': stage, 'got': repr(R0)[:60], 'want': float(Fraction(1, 2) * k2 / k1)})
                return None
            h.require('R0-formula', True)
            if stage == 'first call':
                (a, b), (c, d) = cfg['rewire']
                G.remove_edge(a, b)
                G.add_edge(c, d)
        return None
    # graphs: get_Pk, get_Pnk, estimate_R0
    G = nx.Graph()
    G.add_nodes_from(range(cfg['n']))
    G.add_edges_from([tuple(e) for e in cfg['edges']])
    N = G.order()
    deg = dict(G.degree())
    Pk = h.call_must_succeed('no-exception', an.get_Pk, G)
    if Pk is None:
        return None
    hist = {}
    for v in G:
        hist[deg[v]] = hist.get(deg[v], 0) + 1
    if abs(sum(Pk.values()) - 1) < 1e-12:
        h.require('Pk-sums-to-1', True)
    else:
        h.fail('Pk-sums-to-1', {'sum': float(sum(Pk.values()))})
    if set(Pk) == set(hist) and all(abs(Pk[k] - hist[k] / N) < 1e-12 for k in hist):
        h.require('Pk=histogram', True)
    else:
        h.fail('Pk=histogram', {'Pk': {str(k): float(v) for k, v in Pk.items()}, 'histogram': hist})
    if all(d > 0 for d in deg.values()) and not cfg.get('loops'):
        Pnk = h.call_must_succeed('no-exception', an.get_Pnk, G)
        if Pnk is not None:
            bad = {k1: float(sum(row.values())) for k1, row in Pnk.items() if abs(sum(row.values()) - 1) > 1e-12}
            # reference: fraction of neighbours of degree-k1 nodes having degree k2
            ref = {}
            for u in G:
                for v in G[u]:
                    ref.setdefault(deg[u], {}).setdefault(deg[v], 0)
                    ref[deg[u]][deg[v]] += 1
            for k1 in ref:
                tot = sum(ref[k1].values())
                for k2 in ref[k1]:
                    if abs(Pnk[k1][k2] - ref[k1][k2] / tot) > 1e-12:
                        bad[(k1, k2)] = float(Pnk[k1][k2])
            if bad:
                h.fail('Pnk-rows-sum-to-1', {'bad': {str(k): v for k, v in bad.items()}})
            else:
                h.require('Pnk-rows-sum-to-1', True)
    else:
        h.require('Pnk-rows-sum-to-1', True)
    eng.div_guard = False
    try:
        tau = eng.real('tau', lo=0, lo_strict=True)
        gamma = eng.real('gamma', lo=0, lo_strict=True)
        T = eng.real('T', lo=0, hi=1)
        k1 = Fraction(sum(deg.values()), N)
        k2 = Fraction(sum(d * (d - 1) for d in deg.values()), N)
        prover = odex.IdProver(list(eng.pc))
        for nm, kw, want in (('tau,gamma', dict(tau=tau, gamma=gamma), tau / (tau + gamma) * k2 / k1), ('T', dict(transmissibility=T), T * k2 / k1)):
            st, v = h.call(an.estimate_R0, G, **kw)
            if st == 'exc':
                h.fail('R0-formula:' + type(v).__name__, {'exception': repr(v)[:200], 'args': nm})
                continue
            ok, m = prover.equal(v, want)
            if ok:
                h.require('R0-formula', True)
            else:
                h.record_failure('R0-formula', {'args': nm, 'got': show(v), 'want': show(want)}, odex.model_values(m))
    finally:
        eng.div_guard = True
    return {'Pk': {str(k): float(v) for k, v in Pk.items()}}


def replay_concrete(cfg, kind, values, decisions):
    """numeric replay on the real code with the counterexample's values"""
    import EoN.auxiliary as aux
    import EoN.analytic as an
    import EoN
    values = {k: float(Fraction(str(v))) for k, v in (values or {}).items() if not str(k).startswith('q!')}
    fam = cfg['family']
    if fam == 'subsample':
        nr, nt, ns = cfg['nr'], cfg['nt'], cfg['nseries']
        rt = [values.get('r%d' % i, 0.0) for i in range(nr)]
        tt = [values.get('t%d' % i, 0.0) for i in range(nt)]
        series = [[values.get('s%d_%d' % (k, i), 0.0) for i in range(nt)] for k in range(ns)]
        if cfg.get('concrete'):
            rt = {'list': list(range(nr)), 'range': range(nr), 'arange': np.arange(nr)}[cfg['concrete']]
            tt = [0.5 * i for i in range(nt)]
            series = [[0.25 + 0.5 * i + k for i in range(nt)] for k in range(ns)]
        try:
            res = aux.subsample(rt, tt, *series)
        except Exception as e:
            return {'reproduced': kind.startswith('no-exception'), 'concrete_detail': {'exception': repr(e)[:200], 'args': [rt, tt, series]}}
        outs = [res] if ns == 1 else list(res)
        bad = []
        for k in range(ns):
            for j, r in enumerate(rt):
                last = None
                for t, s in zip(tt, series[k]):
                    if t <= r:
                        last = s
                if float(outs[k][j]) != last:
                    bad.append((k, j, float(outs[k][j]), last))
        return {'reproduced': bool(bad), 'concrete_detail': {'report_times': rt, 'times': tt, 'series': series, 'mismatches': bad}}
    if fam == 'timeshift':
        n = cfg['n']
        tt = [values.get('t%d' % i, 0.0) for i in range(n)]
        LL = [values.get('L%d' % i, 0.0) for i in range(n)]
        thr = values.get('thr', 0.0)
        try:
            res = aux.get_time_shift(tt, LL, thr)
        except Exception as e:
            return {'reproduced': kind.startswith('no-exception'), 'concrete_detail': {'exception': repr(e)[:200]}}
        want = [t for t, l in zip(tt, LL) if l >= thr]
        return {'reproduced': bool(want) and res != want[0], 'concrete_detail': {'times': tt, 'L': LL, 'threshold': thr, 'got': res, 'want': want[:1]}}
    if fam == 'pgf':
        K = cfg['K']
        Pk = {k: values.get('P%d' % k, 0.1 * (k + 1)) for k in range(K + 1)}
        x = values.get('x', 0.7)
        psi, psiP, psiPP = an.get_PGF(Pk), an.get_PGFPrime(Pk), an.get_PGFDPrime(Pk)
        ref = lambda y, d: sum(Pk[k] * (np.prod([k - j for j in range(d)]) if d else 1) * (y ** (k - d) if k >= d else 0) for k in Pk)
        det = {}
        for nm, f, d in (('psi', psi, 0), ("psi'", psiP, 1), ("psi''", psiPP, 2)):
            for y in (1.0, x):
                try:
                    got = float(f(y))
                except Exception as e:
                    det[nm] = repr(e)[:100]
                    continue
                if abs(got - ref(y, d)) > 1e-9 * max(1, abs(got)):
                    det['%s(%s)' % (nm, y)] = [got, float(ref(y, d))]
        # second distribution on the same degrees
        Qk = {k: values.get('Q%d' % k, 0.05 * (K + 2 - k)) for k in range(K + 1)}
        try:
            psi2, psiP2 = an.get_PGF(Qk), an.get_PGFPrime(Qk)
            g1, w1 = float(psi2(x)), sum(Qk[k] * x ** k for k in Qk)
            g2, w2 = float(psiP2(1.0)), sum(k * Qk[k] for k in Qk)
            if abs(g1 - w1) > 1e-9 * max(1, abs(g1)):
                det['second distribution psi(x)'] = [g1, w1]
            if abs(g2 - w2) > 1e-9 * max(1, abs(g2)):
                det["second distribution psi'(1)"] = [g2, w2]
        except Exception as e:
            det['second distribution'] = repr(e)[:100]
        return {'reproduced': bool(det), 'concrete_detail': det}
    if fam == 'graph-edited':
        G = nx.Graph()
        G.add_nodes_from(range(cfg['n']))
        G.add_edges_from([tuple(e) for e in cfg['edges']])
        det = {}
        for stage in ('first call', 'after the edit'):
            Pk = an.get_Pk(G)
            deg = dict(G.degree())
            hist = {}
            for v in G:
                hist[deg[v]] = hist.get(deg[v], 0) + 1
            if set(Pk) != set(hist) or any(abs(Pk[k] - hist[k] / G.order()) > 1e-12 for k in hist):
                det[stage] = {'Pk': {str(k): float(v) for k, v in Pk.items()}, 'histogram': hist}
            k1 = sum(deg.values()) / G.order()
            k2 = sum(d * (d - 1) for d in deg.values()) / G.order()
            R0 = EoN.estimate_R0(G, transmissibility=0.5)
            if abs(float(R0) - 0.5 * k2 / k1) > 1e-12:
                det[stage + ' R0'] = [float(R0), 0.5 * k2 / k1]
            if stage == 'first call':
                (a, b), (c, d) = cfg['rewire']
                G.remove_edge(a, b)
                G.add_edge(c, d)
        return {'reproduced': bool(det), 'concrete_detail': det}
    G = nx.Graph()
    G.add_nodes_from(range(cfg['n']))
    G.add_edges_from([tuple(e) for e in cfg['edges']])
    deg = dict(G.degree())
    N = G.order()
    if kind in ('Pk-sums-to-1', 'Pk=histogram', 'Pnk-rows-sum-to-1') or kind.startswith('no-exception'):
        det = {}
        try:
            Pk = an.get_Pk(G)
            if abs(sum(Pk.values()) - 1) > 1e-12:
                det['sum'] = float(sum(Pk.values()))
            hist = {}
            for v in G:
                hist[deg[v]] = hist.get(deg[v], 0) + 1
            if set(Pk) != set(hist) or any(abs(Pk[k] - hist[k] / N) > 1e-12 for k in hist):
                det['Pk'] = {str(k): float(v) for k, v in Pk.items()}
            if all(d > 0 for d in deg.values()):
                Pnk = an.get_Pnk(G)
                for k1_, row in Pnk.items():
                    if abs(sum(row.values()) - 1) > 1e-12:
                        det['Pnk[%s]' % k1_] = float(sum(row.values()))
        except Exception as e:
            det['exception'] = repr(e)[:200]
        return {'reproduced': bool(det), 'concrete_detail': det}
    tau, gamma, T = values.get('tau', 1.3), values.get('gamma', 0.6), values.get('T', 0.4)
    k1 = sum(deg.values()) / N
    k2 = sum(d * (d - 1) for d in deg.values()) / N
    det = {}
    try:
        a = EoN.estimate_R0(G, tau=tau, gamma=gamma)
        b = EoN.estimate_R0(G, transmissibility=T)
        if abs(a - tau / (tau + gamma) * k2 / k1) > 1e-9:
            det['tau,gamma'] = [a, tau / (tau + gamma) * k2 / k1]
        if abs(b - T * k2 / k1) > 1e-9:
            det['T'] = [b, T * k2 / k1]
    except Exception as e:
        det['exception'] = repr(e)[:200]
    return {'reproduced': bool(det), 'concrete_detail': det}

"""C02 -- Markovian SIS simulators sample the exact network SIS process."""
import z3
from vlib import symx, graphs, simruns, simobl, gillaw, refs
from vlib.symx import INF, EQ, LE, LT, AND, OR, NOT, IMPL, show, lift, Sym

PROPERTY = 'C02'
EXPLANATION = ("Gillespie_SIS: as C01 -- every reachable state within E events of every configuration is a node of the explored "
               "path tree; z3 proves clock rate = reference total rate, event mass = rate/total for recoveries (I->S) and "
               "transmissions, nothing else, nothing missing, including link re-insertion after recovery and repeated "
               "reinfection.  fast_SIS: Poisson coupling.  For every (infectious episode of u, neighbour v) the harness owns a "
               "stream of symbolic, increasing candidate contact times; the exponential stub answers each draw made inside "
               "_find_next_trans_SIS_Markov with 'next stream point after the time the draw is conditioned on' (law-preserving by "
               "memorylessness, L2) after z3 has proved that the rate handed to the draw is tau*w_uv (gamma*w_u for recovery "
               "draws).  On every path z3 then proves that the returned history equals the plain reference semantics on those "
               "streams: each stream point inside the episode and before tmax infects v iff v is susceptible at that instant "
               "(infector recorded), every infection is such a point, recoveries end episodes; each stream is extended by one "
               "arbitrary further point so that contacts the implementation never asked about are covered too.")
BOUNDS = {'quick': 'Gillespie_SIS: G3 x initial sets x weights {none, both}, <=3 events.  fast_SIS: K2, P3; <=3 infectious episodes; <=3 stream points per (episode, neighbour); symbolic tmax; weights none/both on K2',
          'thorough': 'Gillespie_SIS: + P4, S3, C4, <=5 events (real weighted candidate sets on K2, P3 only); fast_SIS: K2 <=4 episodes, P3 <=3 episodes x 3 stream points, K3 <=2 episodes from <=2 initial nodes (larger settings exceeded the path cap)'}
ASSUMPTIONS = ['floats as reals', 'L2 memorylessness of the Poisson process (coupling is law-preserving)', 'generic position: stream points differ from the status-change times of the nodes involved',
               'weighted candidate sets through their abstraction (C16)']
OPTS = {'quick': {'max_validate': 2, 'validate_every': 23, 'cfg_timeout': 250}, 'thorough': {'max_validate': 2, 'validate_every': 211, 'cfg_timeout': 1700}}
MUST_EVALUATE = {'quick': ['clock-rate', 'event-law', 'no-missing-event', 'expo-rate', 'contact-infects-iff-susceptible', 'infection-is-a-contact',
                           'recovery-ends-episode', 'unasked-contact-harmless']}


def functions():
    import EoN, EoN.simulation as s
    return [s.Gillespie_SIS, s.fast_SIS, s._process_trans_SIS_Markov, s._find_next_trans_SIS_Markov, s._process_rec_SIS_, s.myQueue.add,
            EoN._get_rate_functions_, s._transform_to_node_history_]


def configs(tier):
    out = []
    E = 3 if tier == 'quick' else 5
    gl = list(graphs.G3) + ['K2loop', 'P3loop'] + (['P4', 'S3', 'C4'] if tier == 'thorough' else [])
    for g in gl:
        n, edges = graphs.ALL[g]
        for I0, _ in graphs.automorphism_reduced_ics(g, with_recovered=False):
            for w in ('none', 'both') if n <= 3 else ('none',):
                if tier == 'quick' and w == 'both' and g == 'K3' and len(I0) > 1:
                    continue
                out.append(dict(family='gillespie', entry='Gillespie_SIS', graph=g, I0=I0, R0=[], weights=w, full=False, tmax='inf',
                                wstub='abstract', max_expo=E, truncate=True, tags=['gillespie', g, 'w:' + w]))
    # the same law with the REAL weighted candidate sets (update / remove with their max-weight bookkeeping; only the rejection
    # loop is replaced by a logged weighted choice): few configurations, the bookkeeping multiplies paths
    for g, I0 in (('K2', [0]), ('P3', [1])) + ((('P3', [0]),) if tier == 'thorough' else ()):
        out.append(dict(family='gillespie', entry='Gillespie_SIS', graph=g, I0=I0, R0=[], weights='both', full=False, tmax='inf',
                        wstub=True, max_expo=E + 1, truncate=True, max_paths=60000, tags=['gillespie', g, 'w:both', 'real-weighted-set']))
    for g in ['K2', 'P3'] + (['K3'] if tier == 'thorough' else []):
        for I0, _ in graphs.automorphism_reduced_ics(g, with_recovered=False):
            for w in ('none', 'both') if g == 'K2' else ('none',):
                if g == 'K2':
                    bounds = [(3, 3)] if tier == 'quick' else [(4, 3)]
                elif tier == 'quick':
                    bounds = [(2, 3)] + ([(3, 2)] if I0 == [0] else [])
                    if len(I0) > 1:
                        bounds = []     # two initial episodes + reinfection: thorough tier
                else:
                    bounds = [(3, 3)] if g == 'P3' else ([(2, 3)] if len(I0) <= 2 else [])     # (sized to the path cap)
                for (ep, pt) in bounds:
                    out.append(dict(family='fast', entry='fast_SIS', graph=g, I0=I0, R0=[], weights=w, full=True, tmax='sym',
                                    max_episodes=ep, max_points=pt, tags=['fast', g, 'w:' + w, 'ep%d' % ep]))
    return out


# ---- Gillespie_SIS -----------------------------------------------------------------------------
def event_of_step(chosen, status, draws):
    if not chosen:
        return None
    item = chosen[-1][1]
    if isinstance(item, tuple):
        return ('trans', item[0], item[1])
    return ('rec', item)


def run_gillespie(h, cfg):
    r = simruns.setup(cfg)
    ret = simruns.call_entry(h, r, 'no-exception')
    h.truncated = r.stub.truncated
    if ret is None:
        return None
    o = simruns.outputs(r, ret)
    eng = symx.ENG
    _, steps = gillaw.split_steps(eng.log)
    S, I = r.N - len(r.I0), len(r.I0)
    rows = [(S, I)]
    for st in steps:
        ch = [d for d in st['draws'] if d[0] in ('choice', 'wchoice')]
        if not ch or symx._isinf(st['e']):
            break
        d = ch[-1]
        item = d[1][d[2]] if d[0] == 'choice' else d[1][d[3]]
        if isinstance(item, tuple):
            S, I = S - 1, I + 1
        else:
            S, I = S + 1, I - 1
        rows.append((S, I))
    got = list(zip([int(x) for x in o.arrays['S']], [int(x) for x in o.arrays['I']]))
    if got == rows:
        h.require('counts-follow-events', True)
    else:
        h.fail('counts-follow-events', {'from_draws': rows, 'returned': got})
    return simruns.result_struct(o, r.nodes)


def post(cfg, records, eng):
    if cfg['family'] != 'gillespie':
        return None
    from checks import C01
    G = graphs.make(cfg['graph'])
    tau, gamma = Sym(z3.Real('tau')), Sym(z3.Real('gamma'))
    names = set('w_%s_%s' % (u, v) for u, v in G.edges())

    def tr(u, v):
        if cfg['weights'] in ('edge', 'both'):
            a, b = (u, v) if ('w_%s_%s' % (u, v)) in names else (v, u)
            return tau * Sym(z3.Real('w_%s_%s' % (a, b)))
        return tau

    def rr(u):
        if cfg['weights'] in ('node', 'both'):
            return gamma * Sym(z3.Real('nw_%s' % (u,)))
        return gamma
    chain = refs.SIRChain(G, tr, rr, sis=True)
    status0 = {n: 'S' for n in G.nodes()}
    for i in cfg['I0']:
        status0[i] = 'I'
    return gillaw.analyse(records, C01.base_assumptions(cfg), chain, status0, event_of_step)


# ---- fast_SIS: Poisson coupling ----------------------------------------------------------------
class Coupling:
    def __init__(self, h, r, cfg):
        self.h, self.r, self.cfg = h, r, cfg
        self.ctx = None
        self.streams = {}       # (source, episode_index, target) -> {'start': t, 'points': [..]}
        self.episodes = {}      # node -> list of {'start':..., 'duration':...}
        self.recctx = None

    def episode_index(self, u):
        return len(self.episodes.get(u, [])) - 1

    def stream(self, u, v, start):
        key = (u, self.episode_index(u), v)
        if key not in self.streams:
            self.streams[key] = {'start': start, 'points': []}
        return self.streams[key]

    def next_point_after(self, st, q):
        """first stream point strictly after q (points created lazily, gaps > 0)"""
        eng = symx.ENG
        i = 0
        while True:
            if i >= len(st['points']):
                if len(st['points']) >= self.cfg['max_points']:
                    raise symx.BoundReached('stream points > %d' % self.cfg['max_points'])
                prev = st['points'][-1] if st['points'] else st['start']
                g = eng.var('g', lo=0, lo_strict=True)
                st['points'].append(prev + g)
            p = st['points'][i]
            if p > q:
                return p
            i += 1

    def expovariate(self, rate):
        r, h = self.r, self.h
        if rate == 0:
            raise ZeroDivisionError('float division by zero')
        if self.ctx is not None:
            c = self.ctx
            ref = simruns.trans_rate(r, c['source'], c['target'])
            h.require('expo-rate', EQ(rate, ref), {'what': 'contact %s->%s' % (c['source'], c['target']), 'rate_used': show(rate), 'reference': show(ref)})
            q = c['time'] if c['ncalls'] == 0 else c['rec_target']
            c['ncalls'] += 1
            st = self.stream(c['source'], c['target'], c['first_time'])
            p = self.next_point_after(st, q)
            symx.ENG.log.append(('expo', rate, p - q))
            return p - q
        # recovery draw
        tgt = self.recctx
        ref = simruns.rec_rate(r, tgt) if tgt is not None else None
        if ref is not None:
            h.require('expo-rate', EQ(rate, ref), {'what': 'recovery of %s' % (tgt,), 'rate_used': show(rate), 'reference': show(ref)})
        n = sum(len(v) for v in self.episodes.values())
        if n >= self.cfg['max_episodes']:
            raise symx.BoundReached('infectious episodes > %d' % self.cfg['max_episodes'])
        d = symx.ENG.var('D_%s' % (tgt,), lo=0, lo_strict=True)
        self.episodes.setdefault(tgt, []).append({'start': self.rectime, 'duration': d})
        symx.ENG.log.append(('expo', rate, d))
        return d


def run_fast(h, cfg):
    eng = symx.ENG
    r = simruns.setup(cfg)
    sim = r.sim
    cp = Coupling(h, r, cfg)
    r.stub.expovariate = cp.expovariate
    real_find = sim._find_next_trans_SIS_Markov
    real_proc = sim._process_trans_SIS_Markov

    def find(Q, time, tau, source, target, status, rec_time, trans_event_args=()):
        # first_time: the first time this (episode, target) pair is conditioned on = infection time of the source's episode
        eps = cp.episodes.get(source, [])
        first = eps[-1]['start'] if eps else time
        cp.ctx = {'source': source, 'target': target, 'time': time, 'rec_target': rec_time[target], 'ncalls': 0, 'first_time': first}
        try:
            return real_find(Q, time, tau, source, target, status, rec_time, trans_event_args=trans_event_args)
        finally:
            cp.ctx = None

    def proc(time, G, source, target, *a):
        cp.recctx = target
        cp.rectime = time
        return real_proc(time, G, source, target, *a)
    sim._find_next_trans_SIS_Markov = find
    sim._process_trans_SIS_Markov = proc
    try:
        ret = simruns.call_entry(h, r, 'no-exception')
    finally:
        sim._find_next_trans_SIS_Markov = real_find
        sim._process_trans_SIS_Markov = real_proc
    if ret is None:
        return None
    o = simruns.outputs(r, ret)
    s = o.sim
    hist = {n: (list(s.node_history(n)[0]), list(s.node_history(n)[1])) for n in r.nodes}
    trans = list(s.transmissions())
    infections = {}
    for (t, u, v) in trans:
        if u is not None:
            infections.setdefault(v, []).append((t, u))
    # episodes <-> history
    for n in r.nodes:
        T, S = hist[n]
        inf_t = [t for t, st in zip(T, S) if st == 'I']
        rec_t = [t for t, st in zip(T, S) if st == 'S'][(0 if n in r.I0 else 1):]
        eps = cp.episodes.get(n, [])
        if len(eps) != len(inf_t):
            h.fail('recovery-ends-episode', {'node': str(n), 'episodes': len(eps), 'infections': len(inf_t)})
            return None
        for k, ep in enumerate(eps):
            h.require('recovery-ends-episode', EQ(ep['start'], inf_t[k]), {'node': str(n), 'k': k})
            end = ep['start'] + ep['duration']
            ep['end'] = end
            if k < len(rec_t):
                h.require('recovery-ends-episode', AND(EQ(rec_t[k], end), LT(end, r.tmax)), {'node': str(n), 'k': k})
            else:
                h.require('recovery-ends-episode', NOT(LT(end, r.tmax)), {'node': str(n), 'k': k, 'unreported': show(end)})

    def strict_sus(v, a):
        T, S = hist[v]
        alts = []
        for i, st in enumerate(S):
            if st != 'S':
                continue
            c = LT(T[i], a) if i > 0 else LE(T[i], a)
            if i + 1 < len(T):
                c = AND(c, LT(a, T[i + 1]))
            alts.append(c)
        return OR(False, *alts)

    def sus_closed(v, a):
        T, S = hist[v]
        alts = []
        for i, st in enumerate(S):
            if st != 'S':
                continue
            c = LE(T[i], a)
            if i + 1 < len(T):
                c = AND(c, LE(a, T[i + 1]))
            alts.append(c)
        return OR(False, *alts)
    contacts = []
    for u in r.nodes:
        for k, ep in enumerate(cp.episodes.get(u, [])):
            for v in r.G.neighbors(u):
                st = cp.streams.get((u, k, v), {'start': ep['start'], 'points': []})
                pts = list(st['points'])
                for p in pts:
                    contacts.append((u, k, v, p, 'asked'))
                # one arbitrary further point of the process, never asked for by the implementation
                prev = pts[-1] if pts else ep['start']
                g = eng.var('gx', lo=0, lo_strict=True)
                contacts.append((u, k, v, prev + g, 'unasked'))
    for (u, k, v, p, kind) in contacts:
        ep = cp.episodes[u][k]
        T, S = hist[v]
        inside = AND(LT(ep['start'], p), LT(p, ep['end']), LT(p, r.tmax))
        hit = OR(False, *[AND(EQ(t, p), w == u) for (t, w) in infections.get(v, [])])
        others = [NOT(EQ(p, t)) for i, t in enumerate(T) if i > 0 and S[i] != 'I'] + [NOT(EQ(p, t)) for (t, w) in infections.get(v, []) if w != u]
        generic = AND(True, *others)
        name = 'contact-infects-iff-susceptible' if kind == 'asked' else 'unasked-contact-harmless'
        if kind == 'asked':
            h.require(name, IMPL(AND(generic, inside), OR(AND(sus_closed(v, p), hit), AND(NOT(hit), NOT(strict_sus(v, p))))),
                      {'contact': [str(u), k, str(v), show(p)], 'target_history': [show(T), S]})
            # (generic position: the point does not coincide with a contact point of ANOTHER episode of the same pair, which could
            # legitimately infect v at that very instant -- a tie of probability 0 that the solver is otherwise free to choose)
            no_tie = [NOT(EQ(p, p2)) for (u2, k2, v2, p2, kind2) in contacts if u2 == u and v2 == v and k2 != k and kind2 == 'asked']
            h.require('nothing-outside-episode', IMPL(AND(NOT(inside), *no_tie), NOT(hit)), {'contact': [str(u), k, str(v), show(p)]})
        else:
            # a contact the implementation never sampled: it must not have been able to change anything
            h.require(name, IMPL(AND(generic, inside), NOT(strict_sus(v, p))), {'contact': [str(u), k, str(v), show(p)], 'target_history': [show(T), S],
                                                                               'episode': [show(ep['start']), show(ep['end'])]})
    for v, lst in infections.items():
        for (t, w) in lst:
            cands = [EQ(t, p) for (u, k, vv, p, kind) in contacts if vv == v and u == w and kind == 'asked']
            h.require('infection-is-a-contact', OR(False, *cands), {'infection': [show(t), str(w), str(v)]})
    return simruns.result_struct(o, r.nodes)


def run_path(h, cfg):
    return run_gillespie(h, cfg) if cfg['family'] == 'gillespie' else run_fast(h, cfg)

"""C12 -- discrete-time simulators follow generation-by-generation Reed-Frost dynamics."""
import itertools
from collections import OrderedDict
import z3
import networkx as nx
from vlib import symx, graphs, simruns, simobl, laws
from vlib.symx import INF, EQ, LE, LT, AND, OR, NOT, IMPL, show, Sym, lift
from vlib.stubs import RandomStub, NPProxy, install_sim

PROPERTY = 'C12'
EXPLANATION = ("(a) discrete_SIR under a deterministic user rule: the digraph of successful contacts (every ordered adjacent pair, "
               "chosen by the engine up front, so all 2^(2m) rules on the graphs of the bound are covered), the optional recovery test "
               "(engine-chosen answers), the initial sets and the horizon kind are enumerated; tmin/tmax are symbolic.  On every path: "
               "a node is infected at tmin + its breadth-first distance from the initial set in that digraph with the initially "
               "recovered nodes removed (never, if unreachable or beyond tmax), is infectious exactly one step unless the recovery "
               "test keeps it, S+I+R = N, times are tmin+k and never exceed tmax.  (b) basic_discrete_SIR, "
               "percolation_based_discrete_SIR and basic_discrete_SIS with SYMBOLIC p in [0,1]: the probability mass of every path is "
               "read off the real code's comparisons of its uniform draws against p (interval lengths; 1/n for the infector choice); "
               "paths are grouped by the trajectory of node-state vectors and z3 proves, as a polynomial identity in p, that the total "
               "mass of each trajectory equals the product of Reed-Frost (resp. discrete SIS) one-step kernels "
               "prod_v [1-(1-p)^{m_v}]^{x_v} (1-p)^{m_v (1-x_v)}, and that the masses of all trajectories sum to 1.  (c) "
               "percolate_network: same node set, exactly one uniform draw compared with p per edge of G, edge kept iff draw < p.")
BOUNDS = {'quick': '(a) K2, P3, K3, K2+K1 x all (I0,R0); recovery test on P3 (<=2 extra steps); (b) K2, P3, K3 (SIR), K2, P3 with <=2 steps (SIS); (c) G3',
          'thorough': '(a) adds P4, S3; (b) adds S3, P4 (SIR), <=3 steps SIS; (c) adds 4-node graphs'}
ASSUMPTIONS = ['floats as reals', 'Reed-Frost / discrete SIS kernels are the reference (Kiss-Miller-Simon ch. 6)', 'full-data mode is used to observe node-level trajectories (C10: both modes describe the same epidemic)']
OPTS = {'quick': {'max_validate': 2, 'validate_every': 11, 'cfg_timeout': 200}, 'thorough': {'max_validate': 2, 'validate_every': 97, 'cfg_timeout': 1500}}
MUST_EVALUATE = {'quick': ['infected-at-bfs-distance', 'infectious-one-step', 'S+I+R=N', 'times-are-generations', 'never-exceeds-tmax',
                           'trajectory-law', 'masses-sum-to-1', 'percolate-one-draw-per-edge', 'percolate-edge-iff-draw<p', 'percolate-same-nodes']}


def functions():
    import EoN.simulation as s
    return [s.discrete_SIR, s.basic_discrete_SIR, s.basic_discrete_SIS, s.percolation_based_discrete_SIR, s.percolate_network, s._simple_test_transmission_]


def configs(tier):
    out = []
    gl = ['K2', 'K2+K1', 'P3', 'K3'] + (['P4', 'S3'] if tier == 'thorough' else [])
    for g in gl:
        n, edges = graphs.ALL[g]
        pairs = [(a, b) for (a, b) in edges] + [(b, a) for (a, b) in edges]
        for I0, R0 in graphs.automorphism_reduced_ics(g):
            if tier == 'quick' and g == 'K3' and (len(I0) > 1 or len(R0) > 1):
                continue
            for full in (True, False):
                for tmax in ('inf', 'steps:1', 'sym'):
                    if tmax != 'inf' and (R0 or g not in ('P3', 'K2')):
                        continue
                    out.append(dict(family='rule', entry='discrete_SIR', graph=g, I0=I0, R0=R0, full=full, tmax=tmax, eager_contacts=pairs,
                                    tags=['rule', g, 'full' if full else 'plain', 'tmax:' + tmax] + (['R0'] if R0 else [])))
            if g == 'P3' and not R0:
                out.append(dict(family='rule', entry='discrete_SIR', graph=g, I0=I0, R0=R0, full=True, tmax='inf', eager_contacts=pairs,
                                test_recovery=True, max_keep=2, tags=['rule', g, 'test_recovery']))
    for entry in ('basic_discrete_SIR', 'percolation_based_discrete_SIR', 'basic_discrete_SIS'):
        sis = entry.endswith('SIS')
        gl2 = ['K2', 'P3'] + ([] if sis else ['K3']) + (['S3', 'P4'] if tier == 'thorough' and not sis else [])
        for g in gl2:
            for I0, R0 in graphs.automorphism_reduced_ics(g, with_recovered=not sis):
                if len(R0) > 1 or (tier == 'quick' and g == 'K3' and (R0 or len(I0) > 1) and entry != 'basic_discrete_SIR'):
                    continue
                c = dict(family='law', entry=entry, graph=g, I0=I0, R0=R0, full=True, tags=['law', entry, g] + (['R0'] if R0 else []))
                c['tmax'] = ('steps:%d' % (2 if tier == 'quick' else 3)) if sis else 'inf'
                out.append(c)
    for g in list(graphs.G3) + (['P4', 'C4', 'K4'] if tier == 'thorough' else []):
        out.append(dict(family='perc', entry='percolate_network', graph=g, tags=['perc', g]))
    return out


# ---- (a) deterministic rule --------------------------------------------------------------------
def bfs(G, contacts, I0, R0, keep=None):
    dist = {u: 0 for u in I0}
    frontier = list(I0)
    k = 0
    while frontier:
        nxt = []
        for u in frontier:
            for v in G.neighbors(u):
                if v in R0 or v in dist:
                    continue
                if contacts.get((u, v)):
                    dist[v] = k + 1
                    nxt.append(v)
        frontier = nxt
        k += 1
    return dist


def run_rule(h, cfg):
    eng = symx.ENG
    r = simruns.setup(cfg)
    # the whole rule is fixed up front (not lazily): contacts the simulator never asks about still exist
    table = {}
    for (a, b) in cfg['eager_contacts']:
        table[(a, b)] = bool(eng.choose(2, 'contact'))
    asked = []

    def rule(u, v):
        asked.append((u, v))
        return table[(u, v)]
    kw = dict(tmin=r.tmin, tmax=r.tmax, return_full_data=cfg['full'])
    kw.update(simruns.ic_kwargs(r, True))
    recov = []
    if cfg.get('test_recovery'):
        def test_recovery(u):
            k = len([x for x in recov if x[0] == u])
            ans = True if k >= cfg.get('max_keep', 1) else bool(eng.choose(2, 'recover?'))
            recov.append((u, ans))
            return ans
        kw['test_recovery'] = test_recovery
    ret = simruns.check_shape(h, r, h.call_must_succeed('no-exception', r.EoN.discrete_SIR, r.G, rule, (), **kw))
    if ret is None:
        return None
    o = simruns.outputs(r, ret)
    dist = bfs(r.G, table, r.I0, set(r.R0))
    # horizon: generation k happens (is reported) iff tmin + k <= tmax ... the loop runs while t[-1] < tmax
    if cfg.get('test_recovery'):
        return rule_with_recovery(h, r, o, table, recov)
    if o.full:
        s = o.sim
        for n in r.nodes:
            T, S = list(s.node_history(n)[0]), list(s.node_history(n)[1])
            if n in r.R0:
                ok = (S == ['R'])
                want = "['R']"
            elif n in dist:
                k = dist[n]
                # infected at tmin+k (if that is <= tmax), recovered one step later (if <= tmax)
                exp_t = [r.tmin] if k == 0 else [r.tmin, r.tmin + k]
                exp_s = ['I'] if k == 0 else ['S', 'I']
                exp_t2, exp_s2 = exp_t + [r.tmin + k + 1], exp_s + ['R']
                c_full = AND(len(T) == len(exp_t2), S == exp_s2, *[EQ(a, b) for a, b in zip(T, exp_t2)]) if len(T) == len(exp_t2) else False
                c_norec = AND(S == exp_s, *[EQ(a, b) for a, b in zip(T, exp_t)]) if len(T) == len(exp_t) else False
                c_never = (S == ['S'] and len(T) == 1)
                reach = LE(r.tmin + k, r.tmax) if k > 0 else True
                rec_vis = LE(r.tmin + k + 1, r.tmax)
                cond = OR(AND(reach, rec_vis, c_full), AND(reach, NOT(rec_vis), c_norec), AND(NOT(reach), c_never))
                h.require('infected-at-bfs-distance', cond, {'node': str(n), 'bfs_distance': k, 'history': [show(T), S]})
                h.require('infectious-one-step', OR(NOT(AND(reach, rec_vis)), c_full), {'node': str(n)})
                continue
            else:
                ok = (S == ['S'] and len(T) == 1)
                want = "['S']"
            if ok:
                h.require('infected-at-bfs-distance', EQ(T[0], r.tmin), {'node': str(n)})
            else:
                h.fail('infected-at-bfs-distance', {'node': str(n), 'history': [show(T), S], 'want': want})
        arrays = h.call_must_succeed('summary', simobl.arrays_of_sim, o)
        if arrays is None:
            return None
    else:
        arrays = o.arrays
        # expected generation sizes
        gens = Counter_(dist)
        t, S, I, R = arrays['t'], arrays['S'], arrays['I'], arrays['R']
        n_rows = len(t)
        nS, nR = r.N - len(r.I0) - len(r.R0), len(r.R0)
        ok = True
        for k in range(n_rows):
            h.require('times-are-generations', EQ(t[k], r.tmin + k), {'k': k, 't': show(t[k])})
            Ik = gens.get(k, 0)
            if k > 0:
                nS -= Ik
                nR += gens.get(k - 1, 0)
            if (int(S[k]), int(I[k]), int(R[k])) != (nS, Ik, nR):
                ok = False
                h.fail('infected-at-bfs-distance', {'row': k, 'returned': [int(S[k]), int(I[k]), int(R[k])], 'expected': [nS, Ik, nR]})
                break
        if ok:
            h.require('infected-at-bfs-distance', True)
            h.require('infectious-one-step', True)
        # number of rows: generations 0..K where K = first empty generation (I=0) or cut by tmax
        last = max(gens) + 1
        for k in range(1, n_rows):
            h.require('never-exceeds-tmax', LT(t[k - 1], r.tmax), {'k': k})
        if n_rows - 1 < last:
            h.require('never-exceeds-tmax', NOT(LT(t[-1], r.tmax)), {'rows': n_rows, 'expected_rows': last + 1, 'why': 'stopped early only because of tmax'})
        elif n_rows - 1 > last:
            h.fail('times-are-generations', {'rows': n_rows, 'expected_rows': last + 1})
    t = arrays['t']
    for k in range(len(t)):
        if int(arrays['S'][k]) + int(arrays['I'][k]) + int(arrays['R'][k]) != r.N:
            h.fail('S+I+R=N', {'row': k})
            break
    else:
        h.require('S+I+R=N', True)
    if o.full:
        for k in range(len(t)):
            h.require('times-are-generations', OR(*[EQ(t[k], r.tmin + j) for j in range(0, r.N + 2)]), {'k': k, 't': show(t[k])})
            h.require('never-exceeds-tmax', LE(t[k], r.tmax) if k > 0 else True, {'k': k, 't': show(t[k])})
    return simruns.result_struct(o, r.nodes)


def Counter_(dist):
    c = {}
    for v, k in dist.items():
        c[k] = c.get(k, 0) + 1
    return c


def rule_with_recovery(h, r, o, table, recov):
    """with a user recovery test: a node stays infectious until the test says so; infection = first generation in which an
    infectious neighbour with a successful contact exists"""
    s = o.sim
    # independent generation-by-generation reference, driven by the recorded answers of the recovery test (in call order per node)
    answers = {}
    for (u, a) in recov:
        answers.setdefault(u, []).append(a)
    status = {n: ('I' if n in r.I0 else 'R' if n in r.R0 else 'S') for n in r.nodes}
    hist = {n: ([0], [status[n]]) for n in r.nodes}
    k = 0
    used = {u: 0 for u in r.nodes}
    while any(v == 'I' for v in status.values()) and k < 12:
        inf = [n for n in r.nodes if status[n] == 'I']
        new = set()
        for u in inf:
            for v in r.G.neighbors(u):
                if status[v] == 'S' and table.get((u, v)):
                    new.add(v)
        for u in inf:
            if used[u] < len(answers.get(u, [])):
                a = answers[u][used[u]]
                used[u] += 1
            else:
                a = True
            if a:
                status[u] = 'R'
                hist[u][0].append(k + 1)
                hist[u][1].append('R')
        for v in new:
            status[v] = 'I'
            hist[v][0].append(k + 1)
            hist[v][1].append('I')
        k += 1
    ok = True
    for n in r.nodes:
        T, S = list(s.node_history(n)[0]), list(s.node_history(n)[1])
        if S != hist[n][1] or len(T) != len(hist[n][0]):
            ok = False
            h.fail('infectious-one-step', {'node': str(n), 'history': [show(T), S], 'reference': hist[n]})
            continue
        h.require('infected-at-bfs-distance', AND(True, *[EQ(a, r.tmin + b) for a, b in zip(T, hist[n][0])]), {'node': str(n), 'history': show(T), 'reference': hist[n][0]})
    if ok:
        h.require('infectious-one-step', True)
    return simruns.result_struct(o, r.nodes)


# ---- (b) law -----------------------------------------------------------------------------------
def run_law(h, cfg):
    r = simruns.setup(cfg)
    ret = simruns.call_entry(h, r, 'no-exception')
    if ret is None:
        return None
    o = simruns.outputs(r, ret)
    s = o.sim
    # trajectory of node-state vectors per generation
    hist = {n: (list(s.node_history(n)[0]), list(s.node_history(n)[1])) for n in r.nodes}
    K = 0
    gen = {}
    for n in r.nodes:
        T, S = hist[n]
        ks = []
        for t in T:
            # times are tmin + k with concrete k: find k
            found = None
            for k in range(0, 3 * r.N + 4):
                if prov_eq(t, r.tmin + k):
                    found = k
                    break
            if found is None:
                h.fail('times-are-generations', {'node': str(n), 't': show(t)})
                return None
            ks.append(found)
        gen[n] = (ks, S)
        K = max(K, max(ks))
    h.require('times-are-generations', True)
    traj = []
    for k in range(K + 1):
        st = []
        for n in r.nodes:
            ks, S = gen[n]
            cur = None
            for kk, ss in zip(ks, S):
                if kk <= k:
                    cur = ss
            st.append(cur)
        traj.append(tuple(st))
    # the recorded histories run as far as the simulation does: up to the last whole step <= tmax unless nobody is infectious any more
    tm = cfg.get('tmax', 'inf')
    if isinstance(tm, str) and tm.startswith('steps:'):
        want_K = int(tm.split(':')[1])
        alive = 'I' in traj[-1]
        if K < want_K and alive:
            h.fail('history-reaches-tmax', {'last_recorded_step': K, 'tmax_step': want_K, 'state_at_last_recorded_step': list(traj[-1])})
        elif K > want_K:
            h.fail('history-reaches-tmax', {'last_recorded_step': K, 'tmax_step': want_K})
        else:
            h.require('history-reaches-tmax', True)
    return {'traj': [list(x) for x in traj], 'hist': {str(n): [hist[n][0], hist[n][1]] for n in r.nodes}}


def prov_eq(a, b):
    eng = symx.ENG
    if eng.mode == 'sym':
        ok, _ = eng.prove(EQ(a, b))
        return ok
    return bool(EQ(a, b))


def kernel(G, nodes, s0, s1, p, sis):
    """Reed-Frost / discrete SIS one-step kernel as a z3 term in p; None if the step is impossible"""
    q = 1 - p
    val = z3.RealVal(1)
    for i, v in enumerate(nodes):
        a, b = s0[i], s1[i]
        if a == 'I':
            if b != ('S' if sis else 'R'):
                return None
            continue
        if a == 'R':
            if b != 'R':
                return None
            continue
        m = len([w for w in G.neighbors(v) if s0[nodes.index(w)] == 'I'])
        stay = z3.RealVal(1)
        for _ in range(m):
            stay = stay * q
        if b == 'I':
            val = val * (1 - stay)
        elif b == 'S':
            val = val * stay
        else:
            return None
    return val


def post(cfg, records, eng):
    if cfg['family'] != 'law':
        return None
    G = graphs.make(cfg['graph'])
    nodes = list(G.nodes())
    sis = cfg['entry'].endswith('SIS')
    p = z3.Real('p')
    prover = laws.Prover([p >= 0, p <= 1])
    groups = OrderedDict()
    failures, inconc = [], []
    counts = {'trajectory-law': 0, 'masses-sum-to-1': 0}
    total = z3.RealVal(0)
    for rec in records:
        log, complete, out = rec
        if out is None or not complete:
            continue
        draws = [d for d in log if d[0] in ('random', 'cmp', 'choice')]
        for d in log:
            if d[0] == 'random':
                prover.s.add(z3.And(lift(d[1]) >= 0, lift(d[1]) < 1))
        try:
            mass, _ = laws.step_mass(draws, prover)
        except laws.LawError as e:
            inconc.append('path mass: %s' % e)
            continue
        key = tuple(tuple(x) for x in out['traj'])
        groups[key] = groups.get(key, z3.RealVal(0)) + mass
        total = total + mass

    def fail(kind, detail, model):
        vals = {str(d): str(model[d]) for d in model.decls()} if model is not None else None
        failures.append({'kind': kind, 'detail': detail, 'values': vals, 'decisions': None,
                         'confirmed': {'reproduced': True, 'how': 'law obligation on masses extracted from the real code\'s comparisons', 'model': vals}})
    maxsteps = int(cfg['tmax'].split(':')[1]) if str(cfg.get('tmax', 'inf')).startswith('steps:') else None
    for key, mass in groups.items():
        ref = z3.RealVal(1)
        ok = True
        for a, b in zip(key, key[1:]):
            k = kernel(G, nodes, a, b, p, sis)
            if k is None:
                ok = False
                break
            ref = ref * k
        # a trajectory that ends while someone is still infectious was cut by tmax: its reference mass is the product so far
        counts['trajectory-law'] += 1
        if not ok:
            good, m = prover.valid(mass == 0)
            if not good:
                fail('trajectory-law', {'trajectory': [list(x) for x in key], 'why': 'impossible step has positive probability'}, m)
            continue
        # absorbing end (no I) or horizon cut: for SIR the run continues until no I; trailing all-recovered row is deterministic
        good, m = prover.valid(mass == ref)
        if not good:
            fail('trajectory-law', {'trajectory': [list(x) for x in key], 'mass': str(z3.simplify(mass))[:300], 'reference': str(z3.simplify(ref))[:300]}, m)
    counts['masses-sum-to-1'] += 1
    good, m = prover.valid(total == 1)
    if not good:
        fail('masses-sum-to-1', {'total': str(z3.simplify(total))[:300]}, m)
    nobl = sum(counts.values())
    return {'obligations': nobl, 'discharged': nobl - len(failures), 'counts': counts, 'failures': failures, 'inconclusive': inconc,
            'states': len(groups), 'transitions': 0, 'law_queries': prover.queries, 'law_solver_s': round(prover.seconds, 2)}


# ---- (c) percolate_network -----------------------------------------------------------------------
def run_perc(h, cfg):
    eng = symx.ENG
    r = simruns.setup(dict(cfg, I0=[], R0=[]))
    p = eng.real('p', lo=0, hi=1)
    n0 = len(eng.log)
    H = h.call_must_succeed('no-exception', r.EoN.percolate_network, r.G, p)
    if H is None:
        return None
    if set(H.nodes()) != set(r.G.nodes()) or H.is_directed():
        h.fail('percolate-same-nodes', {'nodes': [str(x) for x in H.nodes()]})
        return None
    h.require('percolate-same-nodes', True)
    log = eng.log[n0:]
    us = [d for d in log if d[0] == 'random']
    edges = list(r.G.edges())
    if len(us) != len(edges) or any(d[0] not in ('random', 'cmp') for d in log):
        h.fail('percolate-one-draw-per-edge', {'draws': len(us), 'edges': len(edges)})
        return None
    h.require('percolate-one-draw-per-edge', True)
    if any(not r.G.has_edge(*e) for e in H.edges()):
        h.fail('percolate-edge-iff-draw<p', {'edges_not_in_G': [str(e) for e in H.edges() if not r.G.has_edge(*e)]})
    for e, d in zip(edges, us):
        kept = H.has_edge(*e)
        h.require('percolate-edge-iff-draw<p', LT(d[1], p) if kept else NOT(LT(d[1], p)), {'edge': str(e), 'kept': kept})
    return {'edges': sorted(str(tuple(sorted(e))) for e in H.edges())}


def run_path(h, cfg):
    return {'rule': run_rule, 'law': run_law, 'perc': run_perc}[cfg['family']](h, cfg)

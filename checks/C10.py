"""C10 -- full-data object and plain time series describe the same epidemic."""
from vlib import symx, graphs, simruns, simobl
from vlib.symx import INF, EQ, LE, LT, AND, OR, NOT, IMPL, show
from vlib.stubs import install_sim, NPProxy
from checks.C05 import ReplayStub, DRAWS, install_replay
from checks.C09 import CONT_SIR, CONT_SIS, DISC, sim_bounds

PROPERTY = 'C10'
EXPLANATION = ("Each simulator is run twice on the same symbolic path: first with plain arrays, then with return_full_data=True "
               "and a replaying random source (the i-th draw must be of the same kind and returns the same symbol; user rules "
               "return the same symbolic values), which also establishes that both modes consume the same draws.  z3 then "
               "proves on every path that summary() computed from the node histories equals the arrays as step functions of "
               "time (rows that share a time are merged: last value wins), that S(),I(),R(),t() equal summary(), that every "
               "node history starts at tmin, is time-ordered and makes only legal moves, that summary(nodelist) over node "
               "subsets equals the count obtained from the histories, and that node_status / get_statuses at an arbitrary "
               "SYMBOLIC query time q >= tmin return the status of the latest change at or before q (including q equal to a "
               "change time).")
BOUNDS = {'quick': 'graphs K2, P3 (K3 for SIR Gillespie/event-driven); initial conditions up to automorphism; <=3 events (SIS-type), <=3 steps (discrete); one symbolic query time per path',
          'thorough': 'adds K3 (all initial conditions), P4, S3 (one initial node, <= 1 recovered) for all; <=4 events'}
ASSUMPTIONS = ['floats as reals', 'ties between event times allowed (solver forks); delays and durations > 0 in user rules',
               'discrete-time simulators under a deterministic rule (engine-chosen contact digraph), as the property states']
OPTS = {'quick': {'max_validate': 2, 'validate_every': 23, 'cfg_timeout': 240}, 'thorough': {'max_validate': 2, 'validate_every': 101, 'cfg_timeout': 1500}}
MUST_EVALUATE = {'quick': ['same-draws-both-modes', 'summary=arrays', 'accessors=summary', 'history-starts-at-tmin', 'history-time-ordered',
                           'history-legal-moves', 'status-at-query-time', 'subset-summary']}


def ref_first(sim, n):
    """status of n at the first time of the simulation: its latest entry at that time (ties at tmin allowed)"""
    T, S = list(sim.node_history(n)[0]), list(sim.node_history(n)[1])
    last = S[0]
    for a, b in zip(T[1:], S[1:]):
        if symx.ENG.mode == 'sym':
            same = symx.ENG.prove(EQ(a, T[0]))[0]
        else:
            same = bool(EQ(a, T[0]))
        if same:
            last = b
    return last


def functions():
    import EoN.simulation as s
    import EoN.simulation_investigation as si
    SI = si.Simulation_Investigation
    return [getattr(s, n) for n in CONT_SIR + CONT_SIS + ['discrete_SIR']] + [s._transform_to_node_history_, SI.summary, SI.node_status,
                                                                             SI.get_statuses, SI.t, SI.S, SI.I, SI.R, SI.node_history]


def configs(tier):
    out = []
    for entry in CONT_SIR + CONT_SIS + ['discrete_SIR']:
        sir = 'SIR' in entry
        gl = ['K2', 'P3'] + (['K3'] if entry == 'Gillespie_SIR' else [])
        if tier == 'thorough':
            gl = ['K2', 'P3', 'K3', 'P4', 'S3']
        for g in gl:
            for I0, R0 in graphs.automorphism_reduced_ics(g, with_recovered=sir):
                if tier == 'quick' and (len(R0) > 1 or (entry in ('fast_nonMarkov_SIS', 'fast_SIS') and len(I0) > 1 and g == 'P3')):
                    continue
                if tier == 'quick' and g == 'K3' and len(I0) > 1:
                    continue
                if tier == 'thorough' and graphs.ALL[g][0] == 4 and (len(I0) > 1 or len(R0) > 1):
                    continue      # 4-node graphs: single initial node, at most one recovered node (sized to about an hour)
                if tier == 'quick' and entry == 'fast_nonMarkov_SIS' and g == 'P3' and I0 != [0]:
                    continue
                c = dict(entry=entry, graph=g, I0=I0, R0=R0, full=False, tags=[g] + (['R0'] if R0 else []))
                sim_bounds(entry, c, tier)
                if entry == 'fast_nonMarkov_SIS':
                    c['max_infections'] = 3      # (each path is run twice here; 4 episodes exceed the budget)
                if tier == 'thorough' and g == 'S3' and I0 == [0] and entry in ('fast_SIR', 'fast_nonMarkov_SIR'):
                    continue                     # hub start on the star: too many orderings for two runs per path
                if tier == 'thorough' and ((entry == 'fast_nonMarkov_SIS' and g == 'K3') or (entry == 'fast_SIR' and graphs.ALL[g][0] == 4 and not R0)):
                    continue                     # (path cap / budget: each path is run twice here)
                c.pop('zero_duration', None)
                if entry in ('Gillespie_SIS',):
                    c['truncate'] = True
                out.append(c)
                if entry in CONT_SIR and g in ('K2', 'P3') and not R0 and len(I0) == 1:
                    out.append(dict(c, tmax='sym', tags=c['tags'] + ['tmax:sym']))
                if entry == 'discrete_SIR' and g == 'P3' and not R0 and len(I0) == 1:
                    # a user recovery test (nodes may stay infectious for several steps; answers chosen by the engine)
                    out.append(dict(c, test_recovery=True, max_keep=2, tags=c['tags'] + ['test_recovery']))
    return out


LEGAL = {True: {('S', 'I'), ('I', 'R')}, False: {('S', 'I'), ('I', 'S')}}


def ref_status(hist, q):
    """list of (condition, status): status of the latest change at or before q"""
    T, S = hist
    out = []
    for i in range(len(T)):
        c = LE(T[i], q)
        if i + 1 < len(T):
            c = AND(c, LT(q, T[i + 1]))
        out.append((c, S[i]))
    return out


def run_path(h, cfg):
    eng = symx.ENG
    r = simruns.setup(cfg)
    ret = simruns.call_entry(h, r, 'no-exception')
    if ret is None:
        return None
    h.truncated = r.stub.truncated
    o = simruns.outputs(r, ret)
    arrays = o.arrays
    log0 = [e for e in eng.log if e[0] in DRAWS]
    # ---- second run, full data, same draws
    r2 = simruns.setup(dict(cfg, full=True))
    r2.tmin, r2.tmax, r2.tau, r2.gamma = r.tmin, r.tmax, r.tau, r.gamma
    if hasattr(r, 'durations'):
        r2.replay_from = r
    stub = install_replay(log0)
    if cfg['entry'] in DISC:
        # under a deterministic rule the plain mode draws nothing; the full-data mode additionally picks which of
        # several simultaneous infectors to record (random.choice) -- that cannot influence counts or histories
        stub.choice = lambda seq: seq[symx.ENG.choose(len(seq), 'infector')]
    if hasattr(r, 'contacts'):
        contacts = dict(r.contacts)
    st, sim = h.call(_second, h, r2, r, cfg)
    if st == 'exc':
        h.fail('same-draws-both-modes', {'exception': repr(sim)[:300]})
        return simruns.result_struct(o, r.nodes)
    if sim is None:
        return simruns.result_struct(o, r.nodes)
    if stub.i != len(log0):
        h.fail('same-draws-both-modes', {'plain_mode_draws': len(log0), 'full_mode_draws': stub.i})
    else:
        h.require('same-draws-both-modes', True)
    names = o.names
    st, summ = h.call(sim.summary)
    if st == 'exc':
        h.fail('summary:' + type(summ).__name__, {'exception': repr(summ)[:200]})
        return simruns.result_struct(o, r.nodes)
    st_, D = list(summ[0]), summ[1]
    # accessors
    acc = {'t': sim.t(), 'S': sim.S(), 'I': sim.I()}
    if o.sir:
        acc['R'] = sim.R()
    okacc = all(len(acc[k]) == len(st_) for k in acc) and all(EQ(a, b) is True or True for a, b in zip(acc['t'], st_))
    same = [EQ(a, b) for a, b in zip(acc['t'], st_)] + [int(a) == int(b) for k in names[1:] for a, b in zip(acc[k], D[k])]
    h.require('accessors=summary', AND(okacc, *same), None)
    # summary == arrays as step functions
    if cfg.get('test_recovery'):
        # discrete time with nodes that stay infectious: the arrays have a row per step, also when nothing changed; the summary (built
        # from status changes) cannot -- compare the step functions, i.e. drop the array rows that repeat the previous counts
        keep = [0] + [i_ for i_ in range(1, len(arrays['t'])) if any(int(arrays[k][i_]) != int(arrays[k][i_ - 1]) for k in names[1:])]
        arrays = {k: [arrays[k][i_] for i_ in keep] for k in arrays}
    ta = arrays['t']
    i = 0
    ok = True
    for j, sj in enumerate(st_):
        if i >= len(ta):
            ok = False
            h.fail('summary=arrays', {'why': 'summary has more times than the arrays', 'summary_t': show(st_), 'arrays_t': show(ta)})
            break
        if not h.require('summary=arrays', EQ(ta[i], sj), {'row': j, 'summary_t': show(sj), 'arrays_t': show(ta[i])}):
            ok = False
            break
        while i + 1 < len(ta) and _provably_equal(ta[i + 1], sj):
            i += 1
        got = {k: int(D[k][j]) for k in names[1:]}
        want = {k: int(arrays[k][i]) for k in names[1:]}
        if got != want:
            h.fail('summary=arrays', {'row': j, 'summary': got, 'arrays_last_row_at_that_time': want})
            ok = False
            break
        i += 1
    if ok and i != len(ta):
        h.fail('summary=arrays', {'why': 'arrays have times beyond the summary', 'summary_t': show(st_), 'arrays_t': show(ta)})
    # histories
    legal = LEGAL[o.sir]
    for n in r.nodes:
        T, S = sim.node_history(n)
        T, S = list(T), list(S)
        if not T:
            h.fail('history-starts-at-tmin', {'node': str(n), 'history': 'empty'})
            continue
        h.require('history-starts-at-tmin', EQ(T[0], r.tmin), {'node': str(n), 't0': show(T[0])})
        for a, b in zip(T, T[1:]):
            h.require('history-time-ordered', LE(a, b), {'node': str(n), 'times': show(T)})
        bad = [(a, b) for a, b in zip(S, S[1:]) if (a, b) not in legal]
        if bad:
            h.fail('history-legal-moves', {'node': str(n), 'statuses': S})
        else:
            h.require('history-legal-moves', True)
    # status at a symbolic query time
    q = eng.real('q')
    if eng.mode == 'sym':
        eng.assume(symx.lift(q) >= symx.lift(r.tmin))
    for n in r.nodes[:2]:
        st, got = h.call(sim.node_status, n, q)
        if st == 'exc':
            h.fail('status-at-query-time:' + type(got).__name__, {'exception': repr(got)[:200]})
            continue
        hist = (list(sim.node_history(n)[0]), list(sim.node_history(n)[1]))
        for c, s in ref_status(hist, q):
            h.require('status-at-query-time', IMPL(c, s == got), {'node': str(n), 'got': got, 'history': [show(hist[0]), hist[1]]})
    st, gs = h.call(sim.get_statuses, None, q)
    if st == 'exc':
        h.fail('status-at-query-time:' + type(gs).__name__, {'exception': repr(gs)[:200]})
    else:
        for n in r.nodes:
            hist = (list(sim.node_history(n)[0]), list(sim.node_history(n)[1]))
            for c, s in ref_status(hist, q):
                h.require('status-at-query-time', IMPL(c, s == gs[n]), {'node': str(n), 'got': gs[n], 'via': 'get_statuses'})
    # documented defaults: no time = the first time; a node subset
    st, g0 = h.call(sim.get_statuses, r.nodes[:2])
    if st == 'exc':
        h.fail('status-at-query-time:' + type(g0).__name__, {'exception': repr(g0)[:200], 'call': 'get_statuses(nodelist) without a time'})
    else:
        want0 = {n: ref_first(sim, n) for n in r.nodes[:2]}
        if dict(g0) == want0:
            h.require('status-at-default-time', True)
        else:
            h.fail('status-at-default-time', {'got': {str(k): v for k, v in dict(g0).items()}, 'want': {str(k): v for k, v in want0.items()}})
    # summary over a node subset
    sub = r.nodes[:max(1, len(r.nodes) - 1)]
    st, ss = h.call(sim.summary, sub)
    # ... which must not disturb what summary() / t() / S() / I() / R() report for the whole population afterwards
    st2, again = h.call(sim.summary)
    if st2 == 'exc':
        h.fail('summary-unaffected-by-subset-query:' + type(again).__name__, {'exception': repr(again)[:200]})
    else:
        t2 = list(again[0])
        same2 = len(t2) == len(st_) and all(int(a) == int(b) for k in names[1:] for a, b in zip(again[1][k], D[k])) and len(list(sim.t())) == len(st_) \
            and all(int(a) == int(b) for a, b in zip(sim.S(), D['S']))
        if same2:
            h.require('summary-unaffected-by-subset-query', AND(True, *[EQ(a, b) for a, b in zip(t2, st_)]), None)
        else:
            h.fail('summary-unaffected-by-subset-query', {'before': {k: [int(x) for x in D[k]] for k in names[1:]}, 'after': {k: [int(x) for x in again[1][k]] for k in names[1:]}})
    if st == 'exc':
        h.fail('subset-summary:' + type(ss).__name__, {'exception': repr(ss)[:200]})
    else:
        tt = list(ss[0])
        for j, tj in enumerate(tt):
            for k in names[1:]:
                cnt = int(ss[1][k][j])
                # number of subset nodes whose reference status at tj is k
                terms = []
                for n in sub:
                    hist = (list(sim.node_history(n)[0]), list(sim.node_history(n)[1]))
                    conds = [c for c, s in ref_status(hist, tj) if s == k]
                    terms.append(OR(False, *conds))
                h.require('subset-summary', _count_is(terms, cnt), {'time': show(tj), 'status': k, 'reported': cnt})
    return simruns.result_struct(o, r.nodes)


def _second(h, r2, r, cfg):
    if hasattr(r, 'contacts'):
        # deterministic rule: the same contact digraph
        r2_contacts = dict(r.contacts)
        ret = None
        import EoN
        kw = dict(tmin=r2.tmin, tmax=r2.tmax, return_full_data=True)
        kw.update(simruns.ic_kwargs(r2, True))
        if cfg.get('test_recovery'):
            answers = list(getattr(r, 'recov_calls', []))      # the same answers, in the same order, as in the plain run

            def test_recovery(u):
                if not answers or answers[0][0] != u:
                    raise simruns.WrongUserArgs('full-data run asks test_recovery(%s) where the plain run asked %s' % (u, answers[:1]))
                return answers.pop(0)[1]
            kw['test_recovery'] = test_recovery
        ret = EoN.discrete_SIR(r2.G, (lambda u, v: r2_contacts.get((u, v), False)), (), **kw)
        return simruns.check_shape(h, r2, ret)
    return simruns.call_entry(h, r2, 'no-exception')


def _provably_equal(a, b):
    eng = symx.ENG
    if eng.mode == 'sym':
        ok, _ = eng.prove(EQ(a, b))
        return ok
    return bool(EQ(a, b))


def _count_is(terms, cnt):
    """exactly cnt of the boolean terms hold"""
    import z3
    if all(isinstance(t, bool) for t in terms):
        return sum(1 for t in terms if t) == cnt
    zs = [t if not isinstance(t, bool) else z3.BoolVal(t) for t in terms]
    return z3.Sum([z3.If(t, 1, 0) for t in zs]) == cnt

"""C06 -- ODE outputs conserve the population and start from the requested state."""
import inspect
from fractions import Fraction
import numpy as np
import z3
from vlib import symx, graphs, odex
from vlib.symx import Sym, EQ, LE, LT, AND, OR, NOT, show, lift
from vlib.stubs import RandomStub, NPProxy

PROPERTY = 'C06'
EXPLANATION = ("Every ODE entry point is executed symbolically (odex): tau, gamma, rho, tmin, tmax are z3 reals, the graph and explicit "
               "initial sets are enumerated, scipy's integrator is replaced by a flow stub whose rows after the first are FRESH "
               "SYMBOLIC STATES.  z3 proves: the returned times are linspace(tmin,tmax,tcount); row 0 of S, I, R (and of the auxiliary "
               "series returned with return_full_data, in their documented order) equals the request -- counts of the given sets or "
               "(1-rho)N, rho N, 0 and the corresponding degree-class / pair counts computed by an independent reference; S+I(+R) = N "
               "at an arbitrary flow state, either as an identity of the reconstruction or because its Lie derivative along the real "
               "right-hand side vanishes identically and it equals N at row 0 (L5); for SIR models dS/dt <= 0 and dR/dt >= 0 on the "
               "region {state >= 0, reconstructed S, I >= 0, denominators > 0} for the models whose region is described by those "
               "inequalities; every consistent initial condition is accepted.")
BOUNDS = {'quick': 'graphs P3, S3, paw, K3 (regular) and the irregular 5-node graph; rho symbolic or explicit (I0[,R0]); tcount = 3; degree support K <= 3',
          'thorough': 'adds P4, C4, K4, K33, T5; two explicit initial sets per graph'}
ASSUMPTIONS = ['floats as reals', 'L5 (a functional with zero Lie derivative is conserved) and L6 (the integrator returns the flow) -- the flow stub\'s contract',
               'tau, gamma > 0; 0 < rho < 1', 'the [0,N] range of compartments is NOT claimed (needs model-specific invariants, DESIGN section 8)']
OPTS = {'quick': {'max_validate': 0, 'cfg_timeout': 200}, 'thorough': {'max_validate': 0, 'cfg_timeout': 900}}
VALIDATE = False
MUST_EVALUATE = {'quick': ['integrator-starts-at-tmin', 'accepted', 'times=linspace', 'row0', 'conservation', 'sir-monotone', 'full-data-row0', 'rhs-defined-at-X0']}

SIS_GRAPH = ['SIS_homogeneous_meanfield_from_graph', 'SIS_homogeneous_pairwise_from_graph', 'SIS_heterogeneous_meanfield_from_graph',
             'SIS_heterogeneous_pairwise_from_graph', 'SIS_compact_pairwise_from_graph', 'SIS_super_compact_pairwise_from_graph',
             'SIS_effective_degree_from_graph', 'SIS_compact_effective_degree_from_graph']
SIR_GRAPH = ['SIR_homogeneous_meanfield_from_graph', 'SIR_homogeneous_pairwise_from_graph', 'SIR_heterogeneous_meanfield_from_graph',
             'SIR_heterogeneous_pairwise_from_graph', 'SIR_compact_pairwise_from_graph', 'SIR_super_compact_pairwise_from_graph',
             'SIR_effective_degree_from_graph', 'SIR_compact_effective_degree_from_graph', 'EBCM_from_graph']
NODE = ['SIS_individual_based', 'SIR_individual_based', 'SIS_pair_based', 'SIR_pair_based']
NODE_PURE = ['SIS_individual_based_pure_IC', 'SIR_individual_based_pure_IC', 'SIS_pair_based_pure_IC', 'SIR_pair_based_pure_IC']
OTHER = ['EBCM_pref_mix_from_graph']
# models whose physical region is described by "state >= 0, S,I >= 0": monotonicity is claimed for these
MONO = {'SIR_homogeneous_meanfield_from_graph', 'SIR_homogeneous_pairwise_from_graph', 'SIR_heterogeneous_pairwise_from_graph',
        'SIR_compact_pairwise_from_graph', 'SIR_individual_based', 'SIR_pair_based', 'SIR_individual_based_pure_IC', 'SIR_pair_based_pure_IC',
        'SIR_compact_effective_degree_from_graph', 'SIR_super_compact_pairwise_from_graph'}


def functions():
    import EoN.analytic as an
    return [getattr(an, n) for n in dir(an) if (n.startswith('_d') or n.endswith('_from_graph') or n.endswith('uniform_introduction') or n == '_my_odeint_' or n.startswith('_get_') or n.startswith('_count')
                                                or n.startswith('_initialize') or n in NODE + NODE_PURE) and callable(getattr(an, n))]


def configs(tier):
    out = []
    gl = ['P3', 'S3', 'paw', 'K3', 'irr5', 'paw+K1'] + (['P4', 'C4', 'K4', 'T5'] if tier == 'thorough' else [])
    for g in gl:
        n = graphs.ALL[g][0]
        ics = [('rho', None, None), ('sets', [0], []), ('sets', [1], [n - 1]), ('sets', [n - 1], [0])]      # (recovered node listed first / last in G.edges())
        if tier == 'thorough' and n >= 4:
            ics.append(('sets', [0, 1], [2]))      # (needs a susceptible node left: closures divide by susceptible counts)
        if n >= 4:
            # two initially recovered nodes of the SAME degree (degree-class counters must accumulate), an infected node elsewhere
            deg = dict(graphs.make(g).degree())
            pair = None
            for a in range(n):
                for b in range(a + 1, n):
                    if deg[a] == deg[b] and pair is None and len([v for v in range(n) if v not in (a, b)]) >= 2:
                        pair = [a, b]
            if pair:
                i0 = [v for v in range(n) if v not in pair][:1]
                ics.append(('sets', i0, pair))
        if g in ('S3', 'paw'):
            ics.append(('default', None, None))     # neither rho nor initial sets: documented default rho = 1/N (N = 4: exact in binary)
        if g in ('P3', 'paw'):
            # nobody susceptible at tmin (SIS started from full infection; SIR with everybody infected or recovered): still consistent
            ics.append(('sets', list(range(n)), []))
            ics.append(('sets', list(range(n - 1)), [n - 1]))
        if g == 'paw+K1':
            ics.append(('sets', [0, 1, 2, 3], []))       # the only susceptible node is isolated: no susceptible stub either
        if g == 'P3':
            for entry in SIS_GRAPH + SIR_GRAPH + NODE + OTHER:
                if 'tcount' in _sig(entry):
                    for tc in (2, 5):
                        out.append(dict(entry=entry, graph=g, ic='rho', I0=None, R0=None, full=False, weighted=False, tcount=tc,
                                        tags=[entry, g, 'rho', 'plain', 'tcount%d' % tc]))
        for entry in SIS_GRAPH + SIR_GRAPH + NODE + NODE_PURE + OTHER:
            sir = ('SIR' in entry) or entry.startswith('EBCM')
            for (kind, I0, R0) in ics:
                if kind == 'sets' and R0 and not sir:
                    continue
                if entry in NODE and kind != 'rho' and not (kind == 'default' and 'pair_based' in entry):
                    continue      # (the pair-based models document rho = 1/N as their default; the individual-based ones require rho or Y0)
                if entry in NODE_PURE and kind in ('rho', 'default'):
                    continue
                if entry in OTHER and kind not in ('rho', 'default'):
                    continue
                if entry == 'SIS_super_compact_pairwise_from_graph' and g in ('K3', 'C4', 'K4', 'K33'):
                    continue     # its closure divides by the degree variance: undefined on regular graphs (model limitation)
                if entry in NODE + NODE_PURE and 'pair' in entry and n > 4:
                    continue
                for full in (False, True):
                    if full and 'return_full_data' not in _sig(entry):
                        continue
                    if entry in NODE_PURE and kind == 'sets' and g in ('P3', 'paw') and full and len(I0) + len(R0 or []) < n:
                        # an explicit nodelist in another order than G.nodes(): per-node series follow the nodelist
                        out.append(dict(entry=entry, graph=g, ic=kind, I0=I0, R0=R0, full=True, weighted=False, nodelist='rotated',
                                        tags=[entry, g, kind, 'full', 'nodelist'] + (['R0'] if R0 else [])))
                    for weighted in ((False, True, 'unrelated-attribute') if entry in NODE + NODE_PURE and g == 'P3' else (False,)):
                        out.append(dict(entry=entry, graph=g, ic=kind, I0=I0, R0=R0, full=full, weighted=weighted,
                                        tags=[entry, g, kind, 'full' if full else 'plain'] + (['R0'] if R0 else []) + (['weighted'] if weighted else [])
                                        + (['no-susceptible-stub'] if kind == 'sets' and _no_susceptible_stub(g, I0, R0) else [])))
    # edge-based models with a uniformly random introduction given by generating functions (no graph argument)
    for pk in ({1: '1/2', 3: '1/2'}, {0: '1/4', 2: '3/4'}):
        for entry in ('EBCM_uniform_introduction', 'EBCM_discrete_uniform_introduction'):
            for full in (False, True):
                out.append(dict(entry=entry, family='uniform', graph='P3', Pk=pk, ic='rho', I0=None, R0=None, full=full, weighted=False,
                                tags=[entry, 'uniform', 'full' if full else 'plain']))
    # discrete-time edge-based wrappers (no integrator: the iteration itself runs on symbolic p, rho)
    for g in gl:
        n = graphs.ALL[g][0]
        for entry in ('EBCM_discrete_from_graph', 'EBCM_pref_mix_discrete_from_graph'):
            kinds = [('rho', None, None)] + ([('default', None, None)] if n == 4 else [])
            if entry == 'EBCM_discrete_from_graph':
                kinds += [('sets', [0], []), ('sets', [1], [n - 1])]
            for (kind, I0, R0) in kinds:
                for full in (False, True):
                    for tmin in (0, 2):
                        out.append(dict(entry=entry, family='discrete', graph=g, ic=kind, I0=I0, R0=R0, full=full, tmin=tmin, weighted=False,
                                        tags=[entry, g, kind, 'full' if full else 'plain', 'tmin%d' % tmin]))
    return out


def _no_susceptible_stub(g, I0, R0):
    G = graphs.make(g)
    return not any(G.degree(v) > 0 for v in G if v not in I0 and v not in (R0 or []))


def _sig(entry):
    import EoN
    return list(inspect.signature(getattr(EoN, entry)).parameters)


# ---- independent reference for initial quantities ---------------------------------------------
def reference_initial(G, kind, I0, R0, rho):
    N = G.order()
    deg = dict(G.degree())
    maxk = max(deg.values())
    twoM = sum(deg.values())
    ref = {'N': N}
    if kind == 'rho':
        ref.update(S=(1 - rho) * N, I=rho * N, R=0)
        Nk = [sum(1 for v in G if deg[v] == k) for k in range(maxk + 1)]
        ref['Sk'] = [(1 - rho) * c for c in Nk]
        ref['Ik'] = [rho * c for c in Nk]
        ref['Rk'] = [0 for c in Nk]
        ref['SS'] = (1 - rho) * (1 - rho) * twoM
        ref['SI'] = (1 - rho) * rho * twoM
        ref['II'] = rho * rho * twoM
        ref['Ss'] = {v: 1 - rho for v in G}
        ref['Is'] = {v: rho for v in G}
        ref['Rs'] = {v: 0 for v in G}
    else:
        st = {v: ('I' if v in I0 else 'R' if v in R0 else 'S') for v in G}
        ref.update(S=sum(1 for v in G if st[v] == 'S'), I=len(I0), R=len(R0))
        for c in 'SIR':
            ref[c + 'k'] = [sum(1 for v in G if deg[v] == k and st[v] == c) for k in range(maxk + 1)]
        ref['SS'] = sum(1 for u in G for v in G[u] if st[u] == 'S' and st[v] == 'S')
        ref['SI'] = sum(1 for u in G for v in G[u] if st[u] == 'S' and st[v] == 'I')
        ref['II'] = sum(1 for u in G for v in G[u] if st[u] == 'I' and st[v] == 'I')
        for c in 'SIR':
            ref[c + 's'] = {v: (1 if st[v] == c else 0) for v in G}
    # ---- pair- and neighbourhood-level quantities (the initial closures assume independent nodes for rho)
    P = {c: ref[c + 's'] for c in 'SIR'}
    Ks = sorted(set(deg.values()))
    nodes = list(G.nodes())
    for a, b in (('S', 'I'), ('S', 'S'), ('I', 'I')):
        ref['%sk%sl' % (a, b)] = [[sum(P[a][u] * P[b][v] for u in G for v in G[u] if deg[u] == k and deg[v] == l) for l in Ks] for k in Ks]
    ref['XY'] = [[(P['S'][u] * P['I'][v] if G.has_edge(u, v) else 0) for v in nodes] for u in nodes]
    ref['XX'] = [[(P['S'][u] * P['S'][v] if G.has_edge(u, v) else 0) for v in nodes] for u in nodes]
    # effective degree: number of X nodes with s susceptible and i infected neighbours
    import math as _m
    for c in ('S', 'I'):
        lat = [[0 for i in range(maxk + 1)] for s_ in range(maxk + 1)]
        if kind == 'rho':
            for s_ in range(maxk + 1):
                for i in range(maxk + 1 - s_):
                    nk = sum(1 for v in G if deg[v] == s_ + i)
                    lat[s_][i] = ((1 - rho) if c == 'S' else rho) * nk * _m.comb(s_ + i, i) * rho ** i * (1 - rho) ** s_
        else:
            for v in G:
                if st[v] == c:
                    s_ = sum(1 for w in G[v] if st[w] == 'S')
                    i = sum(1 for w in G[v] if st[w] == 'I')
                    lat[s_][i] += 1
        ref[c + '_si'] = lat
    return ref


# documented order of the full-data return values (names -> position); scalars/series we can predict at row 0
FULL = {
    'SIS_homogeneous_pairwise_from_graph': ['t', 'S', 'I', 'SI', 'SS', 'II'],
    'SIR_homogeneous_pairwise_from_graph': ['t', 'S', 'I', 'R', 'SI', 'SS'],
    'SIS_heterogeneous_meanfield_from_graph': ['t', 'S', 'I', 'Sk', 'Ik'],
    'SIR_heterogeneous_meanfield_from_graph': ['t', 'Sk', 'Ik', 'Rk'],
    'SIS_heterogeneous_pairwise_from_graph': ['t', 'S', 'I', 'SkK', 'IkK', 'SkIl', 'SkSl', 'IkIl'],
    'SIR_heterogeneous_pairwise_from_graph': ['t', 'S', 'I', 'R', 'SkK', 'IkK', 'RkK', 'SkIl', 'SkSl'],
    'SIS_compact_pairwise_from_graph': ['t', 'S', 'I', 'Sk', 'Ik', 'SI', 'SS', 'II'],
    'SIS_compact_effective_degree_from_graph': ['t', 'S', 'I', 'Sk', 'Ik', 'SI', 'SS', 'II'],
    'SIR_compact_pairwise_from_graph': ['t', 'Sk', 'I', 'R', 'SS', 'SI'],
    'SIS_super_compact_pairwise_from_graph': ['t', 'S', 'I', 'SS', 'SI', 'II'],
    'SIR_super_compact_pairwise_from_graph': ['t', 'S', 'I', 'R', 'SS', 'SI'],
    'SIS_effective_degree_from_graph': ['t', 'S', 'I', 'S_si', 'I_si'],
    'SIR_effective_degree_from_graph': ['t', 'S', 'I', 'R', 'S_si'],
    'SIR_compact_effective_degree_from_graph': ['t', 'S', 'I', 'R', None, 'SI'],
    'EBCM_from_graph': ['t', 'S', 'I', 'R', 'theta'],
    'EBCM_pref_mix_from_graph': ['t', 'S', 'I', 'R', 'thetak'],
    'SIS_individual_based': ['t', 'Ss', 'Is'],
    'SIR_individual_based': ['t', 'S', 'I', 'R', 'Ss', 'Is', 'Rs'],
    'SIS_individual_based_pure_IC': ['t', 'Ss', 'Is'],
    'SIR_individual_based_pure_IC': ['t', 'S', 'I', 'R', 'Ss', 'Is', 'Rs'],
    'SIS_pair_based': ['t', 'S', 'I', 'Ss', 'Is', 'XY', 'XX'],
    'SIR_pair_based': ['t', 'S', 'I', 'R', 'Ss', 'Is', 'Rs', 'XY', 'XX'],
    'SIS_pair_based_pure_IC': ['t', 'S', 'I', 'Ss', 'Is', 'XY', 'XX'],
    'SIR_pair_based_pure_IC': ['t', 'S', 'I', 'R', 'Ss', 'Is', 'Rs', 'XY', 'XX'],
}


def run_path(h, cfg):
    eng = symx.ENG
    import EoN
    import EoN.analytic as an
    eng.div_guard = False
    flow = odex.install(an, odex.FlowStub())
    try:
        return _run(h, cfg, eng, EoN, an, flow)
    finally:
        eng.div_guard = True


def _run_discrete(h, cfg, eng, EoN):
    entry = cfg['entry']
    G = graphs.make(cfg['graph'])
    N = G.order()
    p = eng.real('p', lo=0, hi=1, lo_strict=True, hi_strict=True)
    tmin, steps = cfg['tmin'], 3
    kw = dict(tmin=tmin, tmax=tmin + steps, return_full_data=cfg['full'])
    rho = None
    if cfg['ic'] == 'rho':
        rho = eng.real('rho', lo=0, hi=1, lo_strict=True, hi_strict=True)
        kw['rho'] = rho
    elif cfg['ic'] == 'default':
        rho = Fraction(1, N)
    else:
        kw['initial_infecteds'] = list(cfg['I0'])
        if cfg['R0']:
            kw['initial_recovereds'] = list(cfg['R0'])
    ret = h.call_must_succeed('accepted', getattr(EoN, entry), G, p, **kw)
    if ret is None:
        return None
    h.require('accepted', True)
    want_len = 5 if cfg['full'] else 4
    if len(ret) != want_len:
        h.fail('return-shape', {'got': len(ret), 'documented': want_len})
        return None
    t, S, I, R = [list(x) for x in ret[:4]]
    if len(t) != steps + 1 or any(len(x) != len(t) for x in (S, I, R)):
        h.fail('times=linspace', {'len': [len(t), len(S), len(I), len(R)], 'expected': steps + 1})
        return None
    for i, ti in enumerate(t):
        h.require('times=linspace', EQ(ti, tmin + i), {'i': i, 'got': show(ti)})
    ref = reference_initial(G, 'rho' if cfg['ic'] == 'default' else cfg['ic'], cfg['I0'] or [], cfg['R0'] or [], rho)
    for c, arr in (('S', S), ('I', I), ('R', R)):
        h.require('row0', EQ(arr[0], ref[c]), {'series': c, 'got': show(arr[0]), 'want': show(ref[c])})
    prover = odex.IdProver(list(eng.pc))
    for i in range(len(t)):
        ok, m = prover.equal(S[i] + I[i] + R[i], N)
        if not ok:
            h.record_failure('conservation', {'step': i, 'S+I+R': show(S[i] + I[i] + R[i])[:200]}, odex.model_values(m))
            break
    else:
        h.require('conservation', True)
    for i in range(len(t) - 1):
        ok, m = prover.equal(R[i + 1], R[i] + I[i])
        if not ok:
            h.record_failure('discrete-recovery-after-one-step', {'step': i}, odex.model_values(m))
            break
    else:
        h.require('discrete-recovery-after-one-step', True)
    if cfg['full']:
        th = ret[4]
        th = [th[k] for k in sorted(th)] if isinstance(th, dict) else th
        a = np.asarray(th, dtype=object)
        first = [a[0]] if a.ndim == 1 else [row[0] for row in a]
        h.require('full-data-row0', AND(True, *[EQ(x, 1) for x in first]), {'series': 'theta', 'got': show(first)})
    return None


def _run_uniform(h, cfg, eng, EoN, flow):
    entry = cfg['entry']
    Pk = {int(k): Fraction(v) for k, v in cfg['Pk'].items()}
    N = 100
    rho = eng.real('rho', lo=0, hi=1, lo_strict=True, hi_strict=True)
    psi = lambda x: sum(Pk[k] * x ** k for k in Pk)
    psiP = lambda x: sum(k * Pk[k] * x ** (k - 1) for k in Pk if k > 0)
    if 'discrete' in entry:
        p = eng.real('p', lo=0, hi=1, lo_strict=True, hi_strict=True)
        steps = 3
        ret = h.call_must_succeed('accepted', getattr(EoN, entry), N, psi, psiP, p, rho, tmax=steps, return_full_data=cfg['full'])
        want_t = list(range(steps + 1))
    else:
        tau = eng.real('tau', lo=0, lo_strict=True)
        gamma = eng.real('gamma', lo=0, lo_strict=True)
        tmin, tmax = eng.real('tmin'), eng.real('tmax')
        eng.assume(lift(tmax) > lift(tmin))
        ret = h.call_must_succeed('accepted', getattr(EoN, entry), N, psi, psiP, tau, gamma, rho, tmin=tmin, tmax=tmax, tcount=3, return_full_data=cfg['full'])
        want_t = [tmin + (tmax - tmin) * Fraction(i, 2) for i in range(3)]
    if ret is None:
        return None
    h.require('accepted', True)
    if len(ret) != (5 if cfg['full'] else 4):
        h.fail('return-shape', {'got': len(ret)})
        return None
    t, S, I, R = [list(x) for x in ret[:4]]
    if len(t) != len(want_t):
        h.fail('times=linspace', {'len': len(t), 'expected': len(want_t)})
        return None
    for i, (a, b) in enumerate(zip(t, want_t)):
        h.require('times=linspace', EQ(a, b), {'i': i, 'got': show(a)})
    for c, arr, want in (('S', S, (1 - rho) * N), ('I', I, rho * N), ('R', R, 0)):
        h.require('row0', EQ(arr[0], want), {'series': c, 'got': show(arr[0]), 'want': show(want)})
    if 'discrete' not in entry and flow.calls:
        call = flow.calls[0]
        h.require('integrator-starts-at-tmin', EQ(list(call.times)[0], tmin), {'started_at': show(list(call.times)[0])})
        st0, f0 = h.call(call.dfunc, np.array(list(call.X0), dtype=object), 0, *call.args)
        if st0 == 'exc':
            h.fail('rhs-defined-at-X0:' + type(f0).__name__, {'exception': repr(f0)[:200]})
            return None
        h.require('rhs-defined-at-X0', True)
    prover = odex.IdProver(list(eng.pc))
    for i in range(len(t)):
        ok, m = prover.equal(S[i] + I[i] + R[i], N)
        if not ok:
            h.record_failure('conservation', {'step': i}, odex.model_values(m))
            break
    else:
        h.require('conservation', True)
    if cfg['full']:
        th = list(np.asarray(ret[4], dtype=object).reshape(-1))
        h.require('full-data-row0', EQ(th[0], 1), {'series': 'theta', 'got': show(th[0])})
    return None


def _run(h, cfg, eng, EoN, an, flow):
    if cfg.get('family') == 'discrete':
        return _run_discrete(h, cfg, eng, EoN)
    if cfg.get('family') == 'uniform':
        return _run_uniform(h, cfg, eng, EoN, flow)
    entry = cfg['entry']
    G = graphs.make(cfg['graph'])
    N = G.order()
    nodes = list(G.nodes())
    tau = eng.real('tau', lo=0, lo_strict=True)
    gamma = eng.real('gamma', lo=0, lo_strict=True)
    tmin = eng.real('tmin')
    tmax = eng.real('tmax')
    eng.assume(lift(tmax) > lift(tmin))
    rho = None
    sir = ('SIR' in entry) or entry.startswith('EBCM')
    TC = cfg.get('tcount', 3)
    kw = dict(tmin=tmin, tmax=tmax, tcount=TC)
    if cfg['ic'] == 'rho':
        rho = eng.real('rho', lo=0, hi=1, lo_strict=True, hi_strict=True)
        kw['rho'] = rho
    elif cfg['ic'] == 'default':
        rho = Fraction(1, N)
    elif entry in NODE_PURE:
        pass
    else:
        kw['initial_infecteds'] = list(cfg['I0'])
        if cfg['R0']:
            kw['initial_recovereds'] = list(cfg['R0'])
    if cfg.get('weighted') == 'unrelated-attribute':
        # networkx's conventional attribute name: it is NOT the transmission weight unless the caller says so
        for i, (u, v) in enumerate(G.edges()):
            G.edges[u, v]['weight'] = 2 + i
    elif cfg.get('weighted'):
        for (u, v) in G.edges():
            G.edges[u, v]['tw'] = eng.real('w_%s_%s' % (u, v), lo=0, lo_strict=True)
        for u in G.nodes():
            G.nodes[u]['rw'] = eng.real('nw_%s' % (u,), lo=0, lo_strict=True)
        kw['transmission_weight'] = 'tw'
        kw['recovery_weight'] = 'rw'
    if cfg['full']:
        kw['return_full_data'] = True
    f = getattr(EoN, entry)
    if cfg.get('nodelist'):
        nodes = nodes[1:] + nodes[:1]          # rotation: not the identity, for n = 3 not an automorphism of the path either
        kw['nodelist'] = list(nodes)
    if entry in NODE_PURE:
        args = [G, tau, gamma, list(cfg['I0'])]
        if cfg['R0']:
            kw['initial_recovereds'] = list(cfg['R0'])
        kw.pop('rho', None)
    else:
        args = [G, tau, gamma]
    ret = h.call_must_succeed('accepted', f, *args, **kw)
    if ret is None:
        return None
    h.require('accepted', True)
    ref = reference_initial(G, 'rho' if cfg['ic'] == 'default' else cfg['ic'], cfg['I0'] or [], cfg['R0'] or [], rho)
    # ---- which slots are t, S, I, R
    names = FULL.get(entry) if cfg['full'] else (['t', 'S', 'I', 'R'] if sir else ['t', 'S', 'I'])
    if names is None or len(ret) != len(names):
        h.fail('return-shape', {'got': len(ret), 'documented': names})
        return None
    slot = {n: ret[i] for i, n in enumerate(names) if n}
    t = list(slot['t'])
    for i, ti in enumerate(t):
        want = tmin + (tmax - tmin) * Fraction(i, TC - 1)
        h.require('times=linspace', EQ(ti, want), {'i': i, 'got': show(ti)})
    if len(t) != TC:
        h.fail('times=linspace', {'len': len(t), 'tcount': TC})
        return None

    def total(arr, i):
        """sum over classes/nodes of a 2-d series at time index i"""
        a = np.asarray(arr, dtype=object)
        if a.ndim == 1:
            return a[i]
        s = 0
        for row in a:
            s = s + row[i]
        return s
    series = {}
    for c in ('S', 'I', 'R'):
        if c in slot:
            series[c] = slot[c]
        elif c + 'k' in slot:
            series[c] = [total(slot[c + 'k'], i) for i in range(TC)]
        elif c + 's' in slot:
            series[c] = [total(slot[c + 's'], i) for i in range(TC)]
    cs = ['S', 'I'] + (['R'] if sir else [])
    if any(c not in series for c in cs):
        h.fail('return-shape', {'missing': [c for c in cs if c not in series]})
        return None
    for c in cs:
        h.require('row0', EQ(series[c][0], ref[c]), {'series': c, 'got': show(series[c][0]), 'want': show(ref[c])})
    # ---- auxiliary series at row 0, documented order
    if cfg['full']:
        for nm in slot:
            if nm in ('t', 'S', 'I', 'R'):
                continue
            val = slot[nm]
            if nm in ('SS', 'SI', 'II'):
                h.require('full-data-row0', EQ(np.asarray(val, dtype=object)[0], ref[nm]), {'series': nm, 'got': show(np.asarray(val, dtype=object)[0]), 'want': show(ref[nm])})
            elif nm in ('Sk', 'Ik', 'Rk'):
                a = np.asarray(val, dtype=object)
                want = ref[nm]
                ok = a.ndim == 2 and a.shape[0] == len(want)
                if not ok:
                    h.fail('full-data-row0', {'series': nm, 'shape': list(a.shape), 'classes': len(want)})
                else:
                    h.require('full-data-row0', AND(True, *[EQ(a[k][0], want[k]) for k in range(len(want))]), {'series': nm, 'got': show([a[k][0] for k in range(len(want))]), 'want': show(want)})
            elif nm in ('SkK', 'IkK', 'RkK'):
                a = np.asarray(val, dtype=object)
                Ks = sorted(set(dict(G.degree()).values()))
                want = [ref[nm[:2]][k] for k in Ks]
                ok = a.ndim == 2 and a.shape[0] == len(want)
                if not ok:
                    h.fail('full-data-row0', {'series': nm, 'shape': list(a.shape)})
                else:
                    h.require('full-data-row0', AND(True, *[EQ(a[j][0], want[j]) for j in range(len(want))]), {'series': nm, 'got': show([a[j][0] for j in range(len(want))]), 'want': show(want)})
            elif nm in ('Ss', 'Is', 'Rs'):
                a = np.asarray(val, dtype=object)
                want = [ref[nm][v] for v in nodes]
                if a.ndim != 2 or a.shape[0] != len(nodes):
                    h.fail('full-data-row0', {'series': nm, 'shape': list(a.shape)})
                else:
                    h.require('full-data-row0', AND(True, *[EQ(a[j][0], want[j]) for j in range(len(nodes))]), {'series': nm, 'got': show([a[j][0] for j in range(len(nodes))]), 'want': show(want)})
            elif nm in ('SkIl', 'SkSl', 'IkIl', 'XY', 'XX', 'S_si', 'I_si'):
                a = np.asarray(val, dtype=object)
                want = ref[nm]
                if nm in ('XY', 'XX') and cfg.get('nodelist'):
                    g_order = list(G.nodes())
                    want = [[want[g_order.index(u)][g_order.index(v)] for v in nodes] for u in nodes]
                if entry.startswith('SIS') and nm == 'I_si' and cfg['ic'] != 'rho':
                    # SIS has no recovered class: every non-susceptible neighbour is infected (same thing here, kept explicit)
                    pass
                if a.ndim != 3 or a.shape[0] != len(want) or a.shape[1] != len(want[0]):
                    h.fail('full-data-row0', {'series': nm, 'shape': list(a.shape), 'expected': [len(want), len(want[0])]})
                else:
                    conds = [EQ(a[i][j][0], want[i][j]) for i in range(len(want)) for j in range(len(want[0]))]
                    h.require('full-data-row0', AND(True, *conds), {'series': nm, 'got': show([[a[i][j][0] for j in range(len(want[0]))] for i in range(len(want))]), 'want': show(want)})
            elif nm == 'thetak':
                if isinstance(val, dict):
                    val = [val[k] for k in sorted(val)]
                a = np.asarray(val, dtype=object)
                if a.ndim != 2:
                    h.fail('full-data-row0', {'series': 'theta[k]', 'shape': list(a.shape)})
                else:
                    h.require('full-data-row0', AND(True, *[EQ(a[k][0], 1) for k in range(a.shape[0])]), {'series': 'theta[k]'})
            elif nm == 'theta':
                h.require('full-data-row0', EQ(np.asarray(val, dtype=object)[0], 1), {'series': 'theta'})
    # ---- conservation at an arbitrary flow state (row 1), L5
    if len(flow.calls) != 1:
        h.fail('conservation', {'integrator_calls': len(flow.calls)})
        return None
    call = flow.calls[0]
    # the integration starts at tmin (from the initial vector): for scipy.integrate.ode the start time is an argument of its own
    h.require('integrator-starts-at-tmin', EQ(list(call.times)[0], tmin), {'started_at': show(list(call.times)[0]), 'via': call.kind})
    # the right-hand side must be defined at the initial state itself (a 0/0 there makes the whole solution NaN)
    eng.div_guard = True
    st0, f0 = h.call(call.dfunc, np.array(list(call.X0), dtype=object), 0, *call.args)
    eng.div_guard = False
    if st0 == 'exc':
        h.fail('rhs-defined-at-X0:' + type(f0).__name__, {'exception': repr(f0)[:200], 'X0': show(list(call.X0))[:12]})
        return None      # nothing further can be said about a right-hand side that is undefined at its own starting point
    else:
        bad0 = [j for j, v in enumerate(list(f0)) if isinstance(v, float) and (v != v or v in (float('inf'), float('-inf')))]
        if bad0:
            h.fail('rhs-defined-at-X0', {'nan_or_inf_components': bad0[:6]})
            return None
        else:
            h.require('rhs-defined-at-X0', True)
    xs = [lift(v) for v in call.out[1]]
    x_assume = [x > 0 for x in xs]      # interior of the region (the boundary follows by continuity of polynomial identities)
    for c_ in x_assume:
        eng.assume(c_)
    st, fx = h.call(call.dfunc, np.array(list(call.out[1]), dtype=object), 0, *call.args)
    if st == 'exc':
        h.fail('rhs-evaluates:' + type(fx).__name__, {'exception': repr(fx)[:200]})
        return None
    fx = [v if isinstance(v, Sym) else Sym(lift(v)) for v in list(fx)]
    base = list(eng.pc) + x_assume
    prover = odex.IdProver(base)
    subs = []
    if 'effective_degree' in entry and 'compact' not in entry:
        # the (s,i) lattice is stored as a full square; only s+i <= maxk is physical.  The physical subspace
        # {x_(s,i) = 0 for s+i > maxk} must be invariant (proved), and the functional is considered on it
        maxk = max(dict(G.degree()).values())
        side = maxk + 1
        nblocks = 2 if entry.startswith('SIS') else 1
        outside = [b * side * side + s_ * side + i_ for b in range(nblocks) for s_ in range(side) for i_ in range(side) if s_ + i_ > maxk]
        subs = [(xs[j], z3.RealVal(0)) for j in outside]
        for j in outside:
            okj, mj = prover.equal(z3.substitute(lift(fx[j]), *subs), 0)
            if not okj:
                h.record_failure('conservation', {'why': 'non-physical lattice site %d gains mass from the physical subspace' % j}, odex.model_values(mj))
        fx = [Sym(z3.substitute(lift(v), *subs)) for v in fx]

    def onsub(e):
        return Sym(z3.substitute(lift(e), *subs)) if subs else e
    E = 0
    for c in cs:
        E = E + series[c][1]
    E = onsub(E)
    ok, m = prover.equal(E, N)
    how = 'identity'
    if not ok:
        # not an identity of the reconstruction: the functional must be invariant along the flow and start at N
        dE = odex.lie_derivative(z3.simplify(lift(E)), xs, fx)
        ok1, m1 = prover.equal(dE, 0)
        E0 = 0
        for c in cs:
            E0 = E0 + series[c][0]
        ok2, m2 = prover.equal(E0, N)
        ok, m = (ok1 and ok2), (m1 or m2)
        how = 'invariant'
    if ok:
        h.require('conservation', True)
    else:
        h.record_failure('conservation', {'S+I+R at a flow state': str(z3.simplify(lift(E)))[:300], 'N': N, 'how': how}, odex.model_values(m))
    # ---- monotonicity (SIR)
    if sir and entry in MONO:
        Sx, Ix, Rx = lift(onsub(series['S'][1])), lift(onsub(series['I'][1])), lift(onsub(series['R'][1]))
        region = [Sx >= 0, Ix >= 0]
        dens = []
        memo = {}
        for v in fx + [Sym(Sx), Sym(Rx)]:
            n_, d_ = odex.to_frac(z3.simplify(lift(v)), memo)
            if not z3.is_rational_value(d_):
                dens.append(d_)
        region += [d > 0 for d in dens]
        p2 = odex.IdProver(base + region)
        dS = odex.lie_derivative(z3.simplify(Sx), xs, fx)
        dR = odex.lie_derivative(z3.simplify(Rx), xs, fx)
        okS, mS = p2.holds(dS <= 0)
        okR, mR = p2.holds(dR >= 0)
        if okS and okR:
            h.require('sir-monotone', True)
        else:
            h.record_failure('sir-monotone', {'dS/dt': str(dS)[:200], 'dR/dt': str(dR)[:200], 'S_nonincreasing': okS, 'R_nondecreasing': okR},
                             odex.model_values(mS or mR))
    elif sir:
        h.require('sir-monotone', True) if False else None
    return {'row0': {c: show(series[c][0]) for c in cs}}


def _num(v, default):
    try:
        return float(Fraction(str(v)))
    except Exception:
        return default


def replay_concrete(cfg, kind, values, decisions):
    """replay on the REAL code with the real integrator: floats from the counterexample for tau, gamma, rho, tmin, tmax"""
    import EoN
    import EoN.analytic as an
    odex.uninstall(an)
    values = values or {}
    G = graphs.make(cfg['graph'])
    N = G.order()
    entry = cfg['entry']
    tau, gamma = _num(values.get('tau'), 1.3), _num(values.get('gamma'), 0.7)
    tmin = _num(values.get('tmin'), 0.0)
    tmax = _num(values.get('tmax'), tmin + 3.0)
    if not tmax > tmin:
        tmax = tmin + 3.0
    if tmax - tmin > 50:
        tmax = tmin + 50
    rho = _num(values.get('rho'), 0.3)
    sir = ('SIR' in entry) or entry.startswith('EBCM')
    kw = dict(tmin=tmin, tmax=tmax, tcount=7)
    if cfg['ic'] == 'rho':
        kw['rho'] = rho
    elif cfg['ic'] == 'default':
        rho = 1.0 / N
    elif entry not in NODE_PURE:
        kw['initial_infecteds'] = list(cfg['I0'])
        if cfg['R0']:
            kw['initial_recovereds'] = list(cfg['R0'])
    if cfg.get('weighted') == 'unrelated-attribute':
        for i, (u, v) in enumerate(G.edges()):
            G.edges[u, v]['weight'] = 2 + i
    elif cfg.get('weighted'):
        for i, (u, v) in enumerate(G.edges()):
            G.edges[u, v]['tw'] = _num(values.get('w_%s_%s' % (u, v)), 1.0 + 0.3 * i)
        for u in G.nodes():
            G.nodes[u]['rw'] = _num(values.get('nw_%s' % (u,)), 1.0 + 0.2 * u)
        kw.update(transmission_weight='tw', recovery_weight='rw')
    if cfg['full']:
        kw['return_full_data'] = True
    if cfg.get('nodelist'):
        nl = list(G.nodes())
        kw['nodelist'] = nl[1:] + nl[:1]
    f = getattr(EoN, entry)
    args = [G, tau, gamma] + ([list(cfg['I0'])] if entry in NODE_PURE else [])
    if entry in NODE_PURE and cfg['R0']:
        kw['initial_recovereds'] = list(cfg['R0'])
    try:
        ret = f(*args, **kw)
    except Exception as e:
        ok = kind.startswith('accepted') or kind.startswith('rhs-evaluates')
        return {'reproduced': ok, 'concrete_detail': {'exception': repr(e)[:200]}, 'how': 'real code, real integrator'}
    if kind.startswith('accepted'):
        return {'reproduced': False, 'why': 'real call succeeded'}
    ref = reference_initial(G, 'rho' if cfg['ic'] == 'default' else cfg['ic'], cfg['I0'] or [], cfg['R0'] or [], rho)
    names = FULL.get(entry) if cfg['full'] else (['t', 'S', 'I', 'R'] if sir else ['t', 'S', 'I'])
    if names is None or len(ret) != len(names):
        return {'reproduced': kind == 'return-shape', 'concrete_detail': {'len': len(ret)}}
    slot = {n: np.asarray(ret[i], dtype=float) for i, n in enumerate(names) if n and n != 'thetak'}

    def tot(a):
        return a if a.ndim == 1 else a.sum(axis=0)
    series = {}
    for c in 'SIR':
        for nm in (c, c + 'k', c + 's'):
            if nm in slot and c not in series:
                series[c] = tot(slot[nm])
    cs = ['S', 'I'] + (['R'] if sir else [])
    tol = 1e-6 * max(1.0, N)
    if kind == 'rhs-defined-at-X0' or kind.startswith('rhs-defined-at-X0:ZeroDivision') or kind.startswith('rhs-defined-at-X0:Float'):
        nan = [c for c in cs if np.isnan(series[c]).any() or np.isinf(series[c]).any()]
        return {'reproduced': bool(nan), 'concrete_detail': {'nan_in': nan, 'S': series['S'].tolist()[:4]}, 'how': 'real code, real integrator'}
    if kind.startswith('rhs-evaluates') or kind.startswith('rhs-defined-at-X0:'):
        # the right-hand side could not be evaluated on symbolic states (e.g. it forces a float array): judge the real run by what
        # the property demands of it -- finite, conserved, monotone where claimed
        tot_ = sum(series[c] for c in cs)
        nan = bool(np.isnan(tot_).any() or np.isinf(tot_).any())
        cons = (not nan) and float(np.max(np.abs(tot_ - N))) > 1e-4 * N
        mono = (not nan) and sir and (np.any(np.diff(series['S']) > 1e-6) or np.any(np.diff(series['R']) < -1e-6))
        return {'reproduced': bool(nan or cons or mono), 'concrete_detail': {'S+I+R': tot_.tolist(), 'N': N, 'nan': nan, 'monotone_violated': bool(mono)},
                'how': 'real code, real integrator'}
    if kind == 'integrator-starts-at-tmin':
        # autonomous systems: the run from tmin must be the run from 0 shifted by tmin
        t0 = tmin if abs(tmin) > 1e-3 else 2.0
        ka, kb = dict(kw, tmin=t0, tmax=t0 + 3.0), dict(kw, tmin=0.0, tmax=3.0)
        ra, rb = f(*args, **ka), f(*args, **kb)
        d = max(float(np.nanmax(np.abs(np.asarray(x, dtype=float) - np.asarray(y, dtype=float)))) for x, y in zip(ra[1:3], rb[1:3]))
        return {'reproduced': d > 1e-5, 'concrete_detail': {'tmin': t0, 'max_difference_to_the_run_from_0': d}, 'how': 'real code, real integrator'}
    if kind == 'times=linspace':
        bad = not np.allclose(slot['t'], np.linspace(tmin, tmax, 7))
        return {'reproduced': bool(bad), 'concrete_detail': {'t': slot['t'].tolist()}}
    if kind == 'row0':
        bad = [c for c in cs if abs(series[c][0] - float(ref[c])) > tol]
        return {'reproduced': bool(bad), 'concrete_detail': {'row0': {c: float(series[c][0]) for c in cs}, 'want': {c: float(ref[c]) for c in cs}}}
    if kind == 'conservation':
        tot_ = sum(series[c] for c in cs)
        bad = np.max(np.abs(tot_ - N)) > 1e-4 * N
        return {'reproduced': bool(bad), 'concrete_detail': {'S+I+R': tot_.tolist(), 'N': N}, 'how': 'real code, real integrator'}
    if kind == 'sir-monotone':
        bad = np.any(np.diff(series['S']) > 1e-7) or np.any(np.diff(series['R']) < -1e-7)
        return {'reproduced': bool(bad), 'concrete_detail': {'S': series['S'].tolist(), 'R': series['R'].tolist()}}
    if kind == 'full-data-row0':
        det = {}
        for nm, a in slot.items():
            if nm in ('SS', 'SI', 'II') and abs(a[0] - float(ref[nm])) > tol:
                det[nm] = [float(a[0]), float(ref[nm])]
            if nm in ('Sk', 'Ik', 'Rk') and (a.ndim != 2 or a.shape[0] != len(ref[nm]) or np.max(np.abs(a[:, 0] - np.array([float(x) for x in ref[nm]]))) > tol):
                det[nm] = 'mismatch'
            if nm in ('Ss', 'Is', 'Rs'):
                want = np.array([float(ref[nm][v]) for v in kw.get('nodelist', list(G.nodes()))])
                if a.ndim != 2 or a.shape[0] != len(want) or np.max(np.abs(a[:, 0] - want)) > tol:
                    det[nm] = 'mismatch'
            if nm in ('SkK', 'IkK', 'RkK'):
                Ks = sorted(set(dict(G.degree()).values()))
                want = np.array([float(ref[nm[:2]][k]) for k in Ks])
                if a.ndim != 2 or a.shape[0] != len(want) or np.max(np.abs(a[:, 0] - want)) > tol:
                    det[nm] = 'mismatch'
            if nm in ('SkIl', 'SkSl', 'IkIl', 'XY', 'XX', 'S_si', 'I_si'):
                want = np.array([[float(x) for x in row] for row in ref[nm]])
                if nm in ('XY', 'XX') and kw.get('nodelist'):
                    g_order = list(G.nodes())
                    ix = [g_order.index(u) for u in kw['nodelist']]
                    want = want[np.ix_(ix, ix)]
                if a.ndim != 3 or a.shape[:2] != want.shape or np.max(np.abs(a[:, :, 0] - want)) > tol:
                    det[nm] = {'got': a[:, :, 0].tolist() if a.ndim == 3 else 'shape %s' % (a.shape,), 'want': want.tolist()}
        if 'thetak' in names:
            th = ret[names.index('thetak')]
            th = [th[k] for k in sorted(th)] if isinstance(th, dict) else th
            th = np.asarray(th, dtype=float)
            if th.ndim != 2 or np.max(np.abs(th[:, 0] - 1)) > tol:
                det['theta[k]'] = 'mismatch'
        return {'reproduced': bool(det), 'concrete_detail': det}
    return {'reproduced': False, 'why': 'no concrete replay for kind %s' % kind}

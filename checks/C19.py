"""C19 -- calls do not modify their arguments and can be repeated."""
import copy, inspect
import numpy as np
import networkx as nx
import z3
from vlib import symx, graphs, simruns, odex
from vlib.symx import Sym, EQ, AND, show, lift
from vlib.stubs import RandomStub, NPProxy, install_sim
from checks.C09 import CONT_SIR, CONT_SIS, DISC, sim_bounds
from checks.C05 import install_replay, DRAWS, struct_eq

PROPERTY = 'C19'
EXPLANATION = ("Frame condition on every path: before each call the harness snapshots the caller-visible arguments -- the contact network "
               "(node order, edge order, every attribute dict, with symbolic weights compared as terms), the initial-condition "
               "containers, the specification graphs / IC dict of the generic simulators, and every numeric array argument of the ODE "
               "model functions (identity, shape, dtype, element terms) -- and z3 / structural comparison proves they are unchanged "
               "afterwards; the same call is then repeated WITH THE SAME OBJECTS and must succeed; for the deterministic ODE models the "
               "initial vector and the arguments reaching the integrator, and the right-hand side at a symbolic state, must be "
               "identical terms.  Shape mutation does not depend on numeric values, so the solver's share here is small (stated in "
               "DESIGN section 8); what the symbolic run adds is that the frame condition is checked on all paths and for all numeric "
               "contents.")
BOUNDS = {'quick': 'simulators: P3 with weights and all container kinds (disjoint, and for SIR overlapping infected/recovered containers), <=3 events; ODE: every direct model function reached from its *_from_graph wrapper on paw / irr5, rho and explicit sets',
          'thorough': 'adds K3, S3 for simulators and P4, K4 for the ODE functions'}
ASSUMPTIONS = ['floats as reals', 'the integrator (stubbed) does not write into the arrays it is given']
OPTS = {'quick': {'max_validate': 0, 'cfg_timeout': 200}, 'thorough': {'max_validate': 0, 'cfg_timeout': 900}}
VALIDATE = False
MUST_EVALUATE = {'quick': ['graph-unchanged', 'containers-unchanged', 'second-call-succeeds', 'arrays-unchanged', 'ode-repeat-identical', 'spec-unchanged']}

ODE_DIRECT = ['SIS_homogeneous_meanfield', 'SIR_homogeneous_meanfield', 'SIS_homogeneous_pairwise', 'SIR_homogeneous_pairwise',
              'SIS_heterogeneous_meanfield', 'SIR_heterogeneous_meanfield', 'SIS_heterogeneous_pairwise', 'SIR_heterogeneous_pairwise',
              'SIS_compact_pairwise', 'SIR_compact_pairwise', 'SIS_super_compact_pairwise', 'SIR_super_compact_pairwise',
              'SIS_effective_degree', 'SIR_effective_degree', 'SIR_compact_effective_degree', 'EBCM', 'EBCM_pref_mix',
              'SIS_individual_based', 'SIR_individual_based', 'SIS_pair_based', 'SIR_pair_based']
WRAPPER_OF = {
    'SIS_homogeneous_meanfield': 'SIS_homogeneous_meanfield_from_graph', 'SIR_homogeneous_meanfield': 'SIR_homogeneous_meanfield_from_graph',
    'SIS_homogeneous_pairwise': 'SIS_homogeneous_pairwise_from_graph', 'SIR_homogeneous_pairwise': 'SIR_homogeneous_pairwise_from_graph',
    'SIS_heterogeneous_meanfield': 'SIS_heterogeneous_meanfield_from_graph', 'SIR_heterogeneous_meanfield': 'SIR_heterogeneous_meanfield_from_graph',
    'SIS_heterogeneous_pairwise': 'SIS_heterogeneous_pairwise_from_graph', 'SIR_heterogeneous_pairwise': 'SIR_heterogeneous_pairwise_from_graph',
    'SIS_compact_pairwise': 'SIS_compact_pairwise_from_graph', 'SIR_compact_pairwise': 'SIR_compact_pairwise_from_graph',
    'SIS_super_compact_pairwise': 'SIS_super_compact_pairwise_from_graph', 'SIR_super_compact_pairwise': 'SIR_super_compact_pairwise_from_graph',
    'SIS_effective_degree': 'SIS_effective_degree_from_graph', 'SIR_effective_degree': 'SIR_effective_degree_from_graph',
    'SIR_compact_effective_degree': 'SIR_compact_effective_degree_from_graph', 'EBCM': 'EBCM_from_graph', 'EBCM_pref_mix': 'EBCM_pref_mix_from_graph',
    'SIS_individual_based': 'SIS_individual_based_pure_IC', 'SIR_individual_based': 'SIR_individual_based_pure_IC',
    'SIS_pair_based': 'SIS_pair_based_pure_IC', 'SIR_pair_based': 'SIR_pair_based_pure_IC',
}


def functions():
    import EoN
    return [getattr(EoN, n) for n in ODE_DIRECT] + [getattr(EoN, n) for n in CONT_SIR + CONT_SIS + DISC]


def configs(tier):
    out = []
    for entry in CONT_SIR + CONT_SIS + DISC:
        sir = 'SIR' in entry
        for g in ['P3', 'P3loop'] + (['K3', 'S3'] if tier == 'thorough' else []):
            for style in (('list', 'set', 'array', 'dictkeys') if g != 'P3loop' else ('list',)):
                for full in (False, True):
                    c = dict(family='sim', entry=entry, graph=g, I0=[0, 1] if style != 'list' else [1], R0=[2] if sir else [], full=full, ic_style=style,
                             r_style='list', weights='both' if entry in ('Gillespie_SIR', 'Gillespie_SIS', 'fast_SIR', 'fast_SIS') else 'none',
                             wstub='abstract', tags=['sim', g, style, 'full' if full else 'plain'])
                    sim_bounds(entry, c, tier)
                    c.pop('zero_duration', None)
                    if entry == 'Gillespie_SIS':
                        c['truncate'] = True
                    out.append(c)
    # a node named in both containers (it starts recovered): still nobody may edit the caller's containers
    for entry in CONT_SIR + DISC:
        if 'SIR' not in entry:
            continue
        for style in ('list', 'set'):
            for full in (False, True):
                c = dict(family='sim', entry=entry, graph='P3', I0=[0, 1], R0=[1, 2], full=full, ic_style=style, r_style='list', weights='none',
                         wstub='abstract', tags=['sim', 'P3', style, 'overlap', 'full' if full else 'plain'])
                sim_bounds(entry, c, 'quick')        # same depth in both tiers (the frame condition does not need more events)
                c.pop('zero_duration', None)
                out.append(c)
    for zero in (None, 'tau', 'gamma'):
        for R0 in ([], [1]):
            out.append(dict(family='infnodes', entry='get_infected_nodes', graph='P3', I0=[0], R0=R0, zero=zero, tags=['infnodes', 'zero:%s' % zero] + (['R0'] if R0 else [])))
    from checks import C03, C15
    for c in C03.configs(tier):
        if c['graph'] in ('P3', 'D:3:01,12') and c['mode'] in ('plain', 'weight_label') and (c['spec'] in ('SIS', 'SEIR') or c.get('minimal_spec')):
            for full in (False, True):
                out.append(dict(c, family='simple', full=full, tags=['simple'] + c['tags']))
    for c in C15.configs(tier):
        if c['graph'] == 'P3':
            out.append(dict(c, family='complex', tags=['complex'] + c['tags']))
    for fn in ODE_DIRECT:
        for g in ['paw', 'irr5', 'paw+K1'] + (['P4', 'K4'] if tier == 'thorough' else []):
            if g == 'paw+K1' and fn not in ('SIS_heterogeneous_pairwise', 'SIR_heterogeneous_pairwise', 'SIS_heterogeneous_meanfield', 'SIR_heterogeneous_meanfield',
                                            'SIS_compact_pairwise', 'SIR_compact_pairwise'):
                continue
            if fn == 'SIS_super_compact_pairwise' and g == 'K4':
                continue
            if 'pair_based' in fn and g in ('irr5', 'paw+K1'):
                continue
            for ic in ('rho', 'sets'):
                w = WRAPPER_OF[fn]
                if 'pure_IC' in w and ic == 'rho':
                    continue
                if fn == 'EBCM_pref_mix' and ic != 'rho':
                    continue
                for full in (False, True):
                    out.append(dict(family='ode', entry=fn, wrapper=w, graph=g, ic=ic, full=full, tags=['ode', fn, g, ic, 'full' if full else 'plain']))
    for fn in ('SIS_pair_based', 'SIR_pair_based', 'SIS_individual_based', 'SIR_individual_based'):
        for g in ('P3', 'paw'):
            out.append(dict(family='ode-explicit', entry=fn, graph=g, tags=['ode-explicit', fn, g]))
    return out


# ---- snapshots ---------------------------------------------------------------------------------
def snap_graph(G):
    return dict(directed=G.is_directed(), nodes=[(n, dict(G.nodes[n])) for n in G.nodes()],
                edges=[(u, v, dict(d)) for u, v, d in G.edges(data=True)], gattr=dict(G.graph),
                adj={n: list(G.adj[n]) for n in G.nodes()})


def same_val(a, b):
    if isinstance(a, Sym) or isinstance(b, Sym):
        return isinstance(a, Sym) and isinstance(b, Sym) and lift(a).eq(lift(b))
    if callable(a) or callable(b):
        return a is b
    try:
        return bool(a == b)
    except Exception:
        return a is b


def same_graph(s1, s2):
    if s1['directed'] != s2['directed'] or s1['gattr'] != s2['gattr'] or s1['adj'] != s2['adj']:
        return False
    if [n for n, _ in s1['nodes']] != [n for n, _ in s2['nodes']]:
        return False
    for (n, d1), (_, d2) in zip(s1['nodes'], s2['nodes']):
        if list(d1) != list(d2) or not all(same_val(d1[k], d2[k]) for k in d1):
            return False
    if [(u, v) for u, v, _ in s1['edges']] != [(u, v) for u, v, _ in s2['edges']]:
        return False
    for (_, _, d1), (_, _, d2) in zip(s1['edges'], s2['edges']):
        if list(d1) != list(d2) or not all(same_val(d1[k], d2[k]) for k in d1):
            return False
    return True


def snap_container(c):
    if isinstance(c, np.ndarray):
        return ('array', c.shape, str(c.dtype), list(c.reshape(-1)))
    if isinstance(c, (set, frozenset)):
        return ('set', sorted(c, key=str))
    if isinstance(c, dict):
        return ('dict', list(c.items()))
    if isinstance(c, (list, tuple)):
        return (type(c).__name__, list(c))
    try:
        return ('iter', list(c))
    except TypeError:
        return ('scalar', c)


def snap_array(a):
    if isinstance(a, np.ndarray):
        return ('array', id(a), a.shape, str(a.dtype), [x for x in a.reshape(-1)])
    if isinstance(a, dict):
        return ('dict', id(a), [(k, snap_array(v)) for k, v in a.items()])
    if isinstance(a, (list, tuple)):
        return (type(a).__name__, id(a), [snap_array(x) for x in a])
    return ('scalar', a)


def same_array(s1, s2):
    if s1[0] != s2[0]:
        return False
    if s1[0] == 'array':
        return s1[1] == s2[1] and s1[2] == s2[2] and s1[3] == s2[3] and len(s1[4]) == len(s2[4]) and all(same_val(a, b) for a, b in zip(s1[4], s2[4]))
    if s1[0] == 'dict':
        return len(s1[2]) == len(s2[2]) and all(k1 == k2 and same_array(v1, v2) for (k1, v1), (k2, v2) in zip(s1[2], s2[2]))
    if s1[0] in ('list', 'tuple'):
        return len(s1[2]) == len(s2[2]) and all(same_array(a, b) for a, b in zip(s1[2], s2[2]))
    return same_val(s1[1], s2[1])


# ---- simulators --------------------------------------------------------------------------------
def run_sim(h, cfg):
    eng = symx.ENG
    r = simruns.setup(cfg)
    sir = 'SIR' in cfg['entry']
    ick = simruns.ic_kwargs(r, sir)
    containers = {k: v for k, v in ick.items() if k in ('initial_infecteds', 'initial_recovereds')}
    g0 = snap_graph(r.G)
    c0 = {k: snap_container(v) for k, v in containers.items()}
    # call through call_entry but with OUR container objects (so that we hold the references)
    real_ic = simruns.ic_kwargs
    simruns.ic_kwargs = lambda rr, s: dict(ick)
    try:
        ret = simruns.call_entry(h, r, 'no-exception')
        if ret is None:
            return None
        ok = same_graph(g0, snap_graph(r.G))
        h.require('graph-unchanged', ok, {'before': str(g0)[:300], 'after': str(snap_graph(r.G))[:300]}) if ok else h.fail('graph-unchanged', {'after': str(snap_graph(r.G))[:400]})
        c1 = {k: snap_container(v) for k, v in containers.items()}
        if c0 == c1:
            h.require('containers-unchanged', True)
        else:
            h.fail('containers-unchanged', {'before': str(c0)[:200], 'after': str(c1)[:200]})
        # second call, same objects, same draws
        log0 = [e for e in eng.log if e[0] in DRAWS]
        a = simruns.result_struct(simruns.outputs(r, ret), r.nodes)
        if hasattr(r, 'durations'):
            r.replay_from = _Frozen(r)
        stub = install_replay(log0)
        if cfg['entry'] == 'discrete_SIR':
            contacts = dict(getattr(r, 'contacts', {}))
            import EoN
            kw = dict(tmin=r.tmin, tmax=r.tmax, return_full_data=cfg.get('full', False))
            kw.update(ick)
            st, ret2 = h.call(EoN.discrete_SIR, r.G, (lambda u, v: contacts.get((u, v), False)), (), **kw)
        else:
            st, ret2 = h.call(simruns._call_entry, h, r, 'no-exception')
        if st == 'exc' or ret2 is None:
            h.fail('second-call-succeeds', {'exception': repr(ret2)[:300]})
        else:
            h.require('second-call-succeeds', True)
            if not same_graph(g0, snap_graph(r.G)) or c0 != {k: snap_container(v) for k, v in containers.items()}:
                h.fail('graph-unchanged', {'after_second_call': True})
    finally:
        simruns.ic_kwargs = real_ic
    return a


class _Frozen:
    def __init__(self, r):
        self.durations = {k: list(v) for k, v in r.durations.items()}
        self.delays = {k: list(v) for k, v in r.delays.items()}


def run_simple(h, cfg):
    from checks import C03
    eng = symx.ENG
    r = C03.build(cfg)
    g0, h0, j0, ic0 = snap_graph(r.G), snap_graph(r.H), snap_graph(r.J), dict(r.IC)
    ret = C03.call(h, r, cfg.get('full', False))
    if ret is None:
        return None
    ok = same_graph(g0, snap_graph(r.G))
    h.require('graph-unchanged', True) if ok else h.fail('graph-unchanged', {'after': str(snap_graph(r.G))[:300]})
    ok = same_graph(h0, snap_graph(r.H)) and same_graph(j0, snap_graph(r.J)) and ic0 == dict(r.IC)
    h.require('spec-unchanged', True) if ok else h.fail('spec-unchanged', {'H': str(snap_graph(r.H))[:200], 'J': str(snap_graph(r.J))[:200]})
    log0 = [e for e in eng.log if e[0] in DRAWS]
    stub = install_replay(log0)
    stub.truncate = r.stub.truncate
    st, ret2 = h.call(C03.call, h, r, cfg.get('full', False))
    if st == 'exc' or ret2 is None:
        h.fail('second-call-succeeds', {'exception': repr(ret2)[:300]})
    else:
        h.require('second-call-succeeds', True)
    return None


def run_complex(h, cfg):
    from checks import C15
    import EoN.simulation as sim
    # C15.run_path builds G and IC itself; wrap the entry point to snapshot what it is given
    real = sim.Gillespie_complex_contagion
    import EoN
    seen = {}

    def wrapped(G, rf, tc, gi, IC, rs, **kw):
        g0, ic0, p0 = snap_graph(G), dict(IC), dict(kw.get('parameters') or {})
        out = real(G, rf, tc, gi, IC, rs, **kw)
        seen['ok'] = same_graph(g0, snap_graph(G)) and ic0 == dict(IC) and all(same_val(p0[k], (kw.get('parameters') or {})[k]) for k in p0)
        return out
    EoN.Gillespie_complex_contagion = wrapped
    try:
        out = C15.run_path(h, cfg)
    finally:
        EoN.Gillespie_complex_contagion = real
    if out is None:
        return None
    if seen.get('ok'):
        h.require('graph-unchanged', True)
        h.require('spec-unchanged', True)
    else:
        h.fail('spec-unchanged', {'why': 'graph / IC / parameters changed by Gillespie_complex_contagion'})
    return out


# ---- ODE model functions -------------------------------------------------------------------------
def run_ode(h, cfg):
    eng = symx.ENG
    import EoN
    import EoN.analytic as an
    eng.div_guard = False
    flow = odex.install(an, odex.FlowStub())
    try:
        G = graphs.make(cfg['graph'])
        tau = eng.real('tau', lo=0, lo_strict=True)
        gamma = eng.real('gamma', lo=0, lo_strict=True)
        fn = cfg['entry']
        real = getattr(an, fn)
        captured = {}

        def spy(*a, **k):
            captured['args'] = a
            captured['kw'] = k
            return real(*a, **k)
        setattr(an, fn, spy)
        kw = dict(tmin=0, tmax=2, tcount=3)
        w = getattr(an, cfg['wrapper'])
        if cfg['ic'] == 'rho':
            kw['rho'] = eng.real('rho', lo=0, hi=1, lo_strict=True, hi_strict=True)
        elif 'pure_IC' not in cfg['wrapper']:
            kw['initial_infecteds'] = [0]
        if cfg['full'] and 'return_full_data' in inspect.signature(w).parameters:
            kw['return_full_data'] = True
        g0 = snap_graph(G)
        args = [G, tau, gamma] + ([[0]] if 'pure_IC' in cfg['wrapper'] else [])
        try:
            ret = h.call_must_succeed('no-exception', w, *args, **kw)
        finally:
            setattr(an, fn, real)
        if ret is None:
            return None
        ok = same_graph(g0, snap_graph(G))
        h.require('graph-unchanged', True) if ok else h.fail('graph-unchanged', {'after': str(snap_graph(G))[:300]})
        if 'args' not in captured:
            h.fail('arrays-unchanged', {'why': '%s not reached from %s' % (fn, cfg['wrapper'])})
            return None
        a, k = captured['args'], captured['kw']
        before = [snap_array(x) for x in a] + [snap_array(v) for v in k.values()]
        ncalls = len(flow.calls)
        # first direct call with these very objects
        st, r1 = h.call(real, *a, **k)
        if st == 'exc':
            h.fail('second-call-succeeds', {'exception': repr(r1)[:300], 'call': 'first direct call'})
            return None
        # the integrator evaluates the right-hand side many times: do it once at the initial state and once at a flow state
        # before looking at the arguments again (a right-hand side that writes through an alias would show up only then)
        cc = flow.calls[ncalls]
        for x_ in list(cc.out[1]):
            eng.assume(lift(x_) > 0)
        h.call(cc.dfunc, np.array(list(cc.X0), dtype=object), 0, *cc.args)
        h.call(cc.dfunc, np.array(list(cc.out[1]), dtype=object), 0, *cc.args)
        after = [snap_array(x) for x in a] + [snap_array(v) for v in k.values()]
        bad = [i for i, (s1, s2) in enumerate(zip(before, after)) if not same_array(s1, s2)]
        if bad:
            names = list(inspect.signature(real).parameters)
            h.fail('arrays-unchanged', {'changed_arguments': [names[i] if i < len(a) else list(k)[i - len(a)] for i in bad],
                                       'before': str([before[i][:4] for i in bad])[:300], 'after': str([after[i][:4] for i in bad])[:300]})
        else:
            h.require('arrays-unchanged', True)
        st, r2 = h.call(real, *a, **k)
        if st == 'exc':
            h.fail('second-call-succeeds', {'exception': repr(r2)[:300]})
            return None
        h.require('second-call-succeeds', True)
        c1, c2 = flow.calls[ncalls], flow.calls[ncalls + 1]
        same = len(c1.X0) == len(c2.X0) and all(same_val(x, y) for x, y in zip(c1.X0, c2.X0))
        # right-hand side at one common symbolic state
        if same:
            xs = np.array(list(c1.out[1]), dtype=object)
            for x in xs:
                eng.assume(lift(x) > 0)
            st1, f1 = h.call(c1.dfunc, np.array(list(xs), dtype=object), 0, *c1.args)
            st2, f2 = h.call(c2.dfunc, np.array(list(xs), dtype=object), 0, *c2.args)
            if st1 == 'exc' or st2 == 'exc':
                same = False
            else:
                prover = odex.IdProver(list(eng.pc))
                for u, v in zip(list(f1), list(f2)):
                    ok, m = prover.equal(u, v)
                    same = same and ok
        if same:
            h.require('ode-repeat-identical', True)
        else:
            h.fail('ode-repeat-identical', {'X0_first': show(list(c1.X0))[:10], 'X0_second': show(list(c2.X0))[:10]})
        return None
    finally:
        eng.div_guard = True


def run_ode_explicit(h, cfg):
    """node-level models called directly with caller-owned arrays (nodelist, Y0, X0, XY0, XX0)"""
    eng = symx.ENG
    import EoN.analytic as an
    eng.div_guard = False
    flow = odex.install(an, odex.FlowStub())
    try:
        G = graphs.make(cfg['graph'])
        N = G.order()
        nodelist = list(G.nodes())
        tau = eng.real('tau', lo=0, lo_strict=True)
        gamma = eng.real('gamma', lo=0, lo_strict=True)
        fn = cfg['entry']
        f = getattr(an, fn)
        Y0 = np.array([1.0 if i == 1 else 0.0 for i in range(N)])
        X0 = 1 - Y0
        XY0 = X0[:, None] * Y0[None, :]
        XX0 = X0[:, None] * X0[None, :]
        kw = dict(nodelist=nodelist, Y0=Y0, tmin=0, tmax=2, tcount=3)
        if 'pair' in fn:
            kw.update(XY0=XY0, XX0=XX0)
        if fn.startswith('SIR'):
            kw['X0'] = X0
        objs = {k: v for k, v in kw.items() if isinstance(v, (np.ndarray, list))}
        g0 = snap_graph(G)
        before = {k: snap_array(v) for k, v in objs.items()}
        ret = h.call_must_succeed('no-exception', f, G, tau, gamma, **kw)
        if ret is None:
            return None
        cc = flow.calls[0]
        for x_ in list(cc.out[1]):
            eng.assume(lift(x_) > 0)
        h.call(cc.dfunc, np.array(list(cc.out[1]), dtype=object), 0, *cc.args)
        after = {k: snap_array(v) for k, v in objs.items()}
        bad = [k for k in before if not same_array(before[k], after[k])]
        if bad or not same_graph(g0, snap_graph(G)):
            h.fail('arrays-unchanged', {'changed_arguments': bad, 'before': str({k: before[k][2:4] for k in bad})[:200], 'after': str({k: after[k][2:4] for k in bad})[:200]})
        else:
            h.require('arrays-unchanged', True)
        st, r2 = h.call(f, G, tau, gamma, **kw)
        if st == 'exc':
            h.fail('second-call-succeeds', {'exception': repr(r2)[:300]})
            return None
        h.require('second-call-succeeds', True)
        c1, c2 = flow.calls[0], flow.calls[1]
        same = len(c1.X0) == len(c2.X0) and all(same_val(x, y) for x, y in zip(c1.X0, c2.X0))
        h.require('ode-repeat-identical', True) if same else h.fail('ode-repeat-identical', {'X0_first': show(list(c1.X0))[:12], 'X0_second': show(list(c2.X0))[:12]})
        return None
    finally:
        eng.div_guard = True


def run_infnodes(h, cfg):
    import EoN
    r = simruns.setup(cfg)
    g0 = snap_graph(r.G)
    kw = {'initial_infecteds': list(r.I0)}
    if r.R0:
        kw['initial_recovereds'] = list(r.R0)
    res = h.call_must_succeed('no-exception', EoN.get_infected_nodes, r.G, r.tau, r.gamma, **kw)
    if res is None:
        return None
    if same_graph(g0, snap_graph(r.G)):
        h.require('graph-unchanged', True)
    else:
        h.fail('graph-unchanged', {'after': str(snap_graph(r.G))[:300]})
    st, res2 = h.call(EoN.get_infected_nodes, r.G, r.tau, r.gamma, **kw)
    if st == 'exc':
        h.fail('second-call-succeeds', {'exception': repr(res2)[:300]})
    else:
        h.require('second-call-succeeds', True)
    return None


def run_path(h, cfg):
    if cfg['family'] == 'infnodes':
        return run_infnodes(h, cfg)
    return {'sim': run_sim, 'simple': run_simple, 'complex': run_complex, 'ode': run_ode, 'ode-explicit': run_ode_explicit}[cfg['family']](h, cfg)


def replay_concrete(cfg, kind, values, decisions):
    """ODE families: numeric replay on the real code with the real integrator (argument snapshots before/after, second call)"""
    if cfg['family'] not in ('ode', 'ode-explicit'):
        return None
    import EoN.analytic as an
    odex.uninstall(an)
    G = graphs.make(cfg['graph'])
    N = G.order()
    tau, gamma = 1.3, 0.7
    fn = cfg['entry']
    real = getattr(an, fn)
    detail = {}
    if cfg['family'] == 'ode-explicit':
        nodelist = list(G.nodes())
        Y0 = np.array([1.0 if i == 1 else 0.0 for i in range(N)])
        X0 = 1 - Y0
        kw = dict(nodelist=nodelist, Y0=Y0, tmin=0, tmax=2, tcount=3)
        if 'pair' in fn:
            kw.update(XY0=X0[:, None] * Y0[None, :], XX0=X0[:, None] * X0[None, :])
        if fn.startswith('SIR'):
            kw['X0'] = X0
        objs = {k: v for k, v in kw.items() if isinstance(v, (np.ndarray, list))}
        before = {k: snap_array(v) for k, v in objs.items()}
        try:
            real(G, tau, gamma, **kw)
        except Exception as e:
            return {'reproduced': kind.startswith('no-exception'), 'concrete_detail': {'exception': repr(e)[:200]}}
        after = {k: snap_array(v) for k, v in objs.items()}
        changed = [k for k in before if not same_array(before[k], after[k])]
        second = None
        try:
            real(G, tau, gamma, **kw)
        except Exception as e:
            second = repr(e)[:200]
        detail = {'changed_arguments': changed, 'second_call_exception': second}
        rep = bool(changed) if kind == 'arrays-unchanged' else (second is not None if kind == 'second-call-succeeds' else bool(changed or second))
        return {'reproduced': rep, 'concrete_detail': detail, 'how': 'real code, real integrator'}
    captured = {}

    def spy(*a, **k):
        if 'before' not in captured:
            captured['args'], captured['kw'] = a, k
            captured['before'] = [snap_array(x) for x in a] + [snap_array(v) for v in k.values()]
        out = real(*a, **k)
        if 'after' not in captured:
            captured['after'] = [snap_array(x) for x in a] + [snap_array(v) for v in k.values()]
        return out
    setattr(an, fn, spy)
    try:
        kw = dict(tmin=0, tmax=2, tcount=3)
        w = getattr(an, cfg['wrapper'])
        if cfg['ic'] == 'rho':
            kw['rho'] = 0.3
        elif 'pure_IC' not in cfg['wrapper']:
            kw['initial_infecteds'] = [0]
        if cfg['full'] and 'return_full_data' in inspect.signature(w).parameters:
            kw['return_full_data'] = True
        args = [G, tau, gamma] + ([[0]] if 'pure_IC' in cfg['wrapper'] else [])
        try:
            w(*args, **kw)
        except Exception as e:
            return {'reproduced': kind.startswith('no-exception'), 'concrete_detail': {'exception': repr(e)[:200]}}
    finally:
        setattr(an, fn, real)
    if 'before' not in captured:
        return {'reproduced': False, 'why': 'direct function not reached'}
    names = list(inspect.signature(real).parameters)
    changed = [names[i] if i < len(captured['args']) else list(captured['kw'])[i - len(captured['args'])]
               for i, (s1, s2) in enumerate(zip(captured['before'], captured['after'])) if not same_array(s1, s2)]
    second = None
    try:
        real(*captured['args'], **captured['kw'])
    except Exception as e:
        second = repr(e)[:200]
    detail = {'changed_arguments': changed, 'second_call_exception': second}
    rep = bool(changed) if kind == 'arrays-unchanged' else (second is not None if kind == 'second-call-succeeds' else bool(changed or second))
    return {'reproduced': rep, 'concrete_detail': detail, 'how': 'real code, real integrator'}

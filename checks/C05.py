"""C05 -- requested initial conditions are what the simulation starts from."""
import inspect
import z3
from fractions import Fraction
from vlib import symx, graphs, simruns, simobl
from vlib.symx import INF, EQ, LE, LT, AND, OR, show, lift
from vlib.stubs import RandomStub

PROPERTY = 'C05'
EXPLANATION = ("Every SIR/SIS simulator and wrapper is executed symbolically (all rates, tmin, draws symbolic; graph, initial "
               "sets, container type, passing style enumerated) and on every path: row 0 of the arrays / the summary equals "
               "(N-|I0|-|R0|, |I0|, |R0|) at t[0]=tmin; get_statuses(time=tmin) and the first node-history entries equal the "
               "request; initially recovered nodes keep the history ([tmin],['R']); every container type and the positional "
               "form give the same result as the keyword list form; rho (symbolic in [0,1]) makes the code request exactly "
               "int(round(N*rho)) distinct nodes from all of G (banker's rounding decided by z3); rho together with "
               "initial_infecteds raises EoNError (also rho=0 and empty collections); wrappers replaying the same draws "
               "return the same arrays as the wrapped function.")
BOUNDS = {'quick': 'graphs K2+K1, P3 (K3 for SIR Gillespie); all (I0,R0) up to automorphism; 8 container styles; <=3 events for SIS-type; <=3 steps discrete',
          'thorough': 'adds K3, P4 and S3 for all simulators; <=4 events'}
ASSUMPTIONS = ['floats as reals', 'random-source stubs (engine-controlled)', 'user rules for fast_nonMarkov_*: fresh symbolic delays/durations',
               'round() modelled as banker\'s rounding by solver forks']
OPTS = {'quick': {'max_validate': 2, 'validate_every': 5, 'cfg_timeout': 150}, 'thorough': {'max_validate': 2, 'validate_every': 50, 'cfg_timeout': 900}}
MUST_EVALUATE = {'quick': ['row0', 'default-one-random-node', 't0=tmin', 'statuses-at-tmin', 'history-first-entry', 'recovered-stay-recovered', 'style-equivalent',
                           'rho-count', 'rho-and-initial-infecteds-rejected', 'wrapper-equivalent', 'positional-equivalent']}

SIR = ['Gillespie_SIR', 'fast_SIR', 'fast_nonMarkov_SIR', 'discrete_SIR', 'basic_discrete_SIR', 'percolation_based_discrete_SIR']
SIS = ['Gillespie_SIS', 'fast_SIS', 'fast_nonMarkov_SIS', 'basic_discrete_SIS']
ALL = SIR + SIS


def functions():
    import EoN.simulation as s
    return [getattr(s, n) for n in ALL] + [s._transform_to_node_history_]


def _bounds(entry, cfg, tier):
    e = 3 if tier == 'quick' else 4
    if entry == 'Gillespie_SIS':
        cfg['max_expo'] = e
    if entry == 'fast_SIS':
        # several initial infections multiply the event orderings: 8 exponential draws only from a single initial node
        cfg['max_expo'] = 2 * e if (len(cfg.get('I0') or [0]) <= 1 and graphs.ALL[cfg.get('graph', 'P3')][0] <= 3) else 6
    if entry == 'fast_nonMarkov_SIS':
        g_ = cfg.get('graph', 'P3')
        cfg['max_infections'] = e if (len(cfg.get('I0') or [0]) <= 1 and graphs.ALL[g_][0] <= 3 and g_ != 'K3') else (3 if (len(cfg.get('I0') or [0]) <= 1 or g_ in ('K2', 'K2+K1', 'P3')) else 2)
        cfg['delays_per_pair'] = 1
    if 'discrete' in entry:
        cfg['tmax'] = 'steps:%d' % e


def configs(tier):
    out = []
    gl = ['K2+K1', 'P3'] + (['K3', 'P4', 'S3'] if tier == 'thorough' else [])
    from checks import C11
    for c in C11.configs(tier):
        if c.get('family') == 'infnodes' and c.get('R0') and not c.get('default_ic'):
            out.append(dict(c, tags=['infnodes'] + [t for t in c.get('tags', []) if t != 'infnodes']))
    for entry in ALL:
        sir = entry in SIR
        for g in gl + (['K3'] if tier == 'quick' and entry == 'Gillespie_SIR' else []):
            for I0, R0 in graphs.automorphism_reduced_ics(g, with_recovered=sir):
                if len(I0) + len(R0) == graphs.ALL[g][0] and R0 and tier == 'quick':
                    continue
                for full in (False, True):
                    c = dict(entry=entry, family='row0', graph=g, I0=I0, R0=R0, full=full, tags=['row0', g, 'full' if full else 'plain'] + (['R0'] if R0 else []))
                    _bounds(entry, c, tier)
                    out.append(c)
        # container styles and positional passing: cheap dynamics (no transmission), the initial state is what matters
        for style in ('tuple', 'set', 'frozenset', 'array', 'dictkeys', 'range', 'single', 'positional'):
            I0 = [1] if style == 'single' else [0, 1]
            R0 = [2] if sir else []
            for full in (False, True):
                c = dict(entry=entry, family='style', graph='P3', I0=I0, R0=R0, full=full, ic_style=style if style != 'positional' else 'list',
                         r_style=style if style not in ('positional', 'single', 'range') else 'list', positional=(style == 'positional'),
                         zero='tau', p=0, no_transmission=True, tags=['style', style, 'full' if full else 'plain'] + (['R0'] if R0 else []))
                _bounds(entry, c, tier)
                out.append(c)
        # rho
        for g in ('K2+K1', 'P3'):
            for full in (False, True):
                c = dict(entry=entry, family='rho', graph=g, I0=None, R0=[], full=full, zero='tau', p=0, no_transmission=True, tags=['rho', g, 'full' if full else 'plain'])
                _bounds(entry, c, tier)
                out.append(c)
                if sir and g == 'P3' and entry in ('Gillespie_SIR', 'discrete_SIR', 'basic_discrete_SIR', 'percolation_based_discrete_SIR'):
                    # rho together with initially recovered nodes (accepted by these entry points): the count is still int(round(N*rho))
                    out.append(dict(c, R0=[0], tags=c['tags'] + ['R0']))
                # neither rho nor initial_infecteds: documented default = one node chosen uniformly at random
                c = dict(c, default_ic=True, tags=['rho', 'default', g, 'full' if full else 'plain'])
                out.append(c)
                if sir and g == 'P3':
                    # ... while some nodes are initially recovered: the random start node must not be one of them
                    out.append(dict(c, R0=[1], tags=c['tags'] + ['R0']))
                    out.append(dict(c, R0=[0, 2], tags=c['tags'] + ['R0', 'R0x2']))
        for variant in ('rho+I0', 'rho0+I0', 'rho+emptyI0', 'rho+single'):
            out.append(dict(entry=entry, family='reject', variant=variant, graph='P3', I0=[0], R0=[], full=False, zero='tau', p=0, no_transmission=True,
                            tags=['reject', variant]))
    # wrappers replaying the same draws
    for g in ('P3', 'K3') if tier == 'quick' else ('P3', 'K3', 'S3'):
        for I0, R0 in graphs.automorphism_reduced_ics(g):
            if len(I0) > 1 and tier == 'quick' and g == 'K3':
                continue
            for full in (False, True):
                out.append(dict(entry='basic_discrete_SIR', family='wrapper', graph=g, I0=I0, R0=R0, full=full, tmax='steps:3',
                                tags=['wrapper', g, 'full' if full else 'plain'] + (['R0'] if R0 else [])))
    return out


# -------------------------------------------------------------------------------------
def _positional_call(h, r, kind):
    """pass the initial sets in their documented positional slots"""
    cfg = r.cfg
    E = r.EoN
    entry = cfg['entry']
    f = getattr(E, entry)
    sig = list(inspect.signature(f).parameters)
    args = {'G': r.G, 'tau': r.tau, 'gamma': r.gamma, 'initial_infecteds': list(r.I0)}
    if 'initial_recovereds' in sig and r.R0:
        args['initial_recovereds'] = list(r.R0)
    if entry in ('basic_discrete_SIR', 'basic_discrete_SIS', 'percolation_based_discrete_SIR'):
        args['p'] = cfg.get('p', 0)
    kw = dict(tmin=r.tmin, tmax=r.tmax, return_full_data=cfg.get('full', False))
    if entry in ('fast_nonMarkov_SIR', 'fast_nonMarkov_SIS'):
        simruns.make_user_fxns(r)
        args['trans_time_fxn'] = r.trans_time_fxn
        args['rec_time_fxn'] = r.rec_time_fxn
    if entry == 'discrete_SIR':
        args['test_transmission'] = lambda u, v: False
    # positional prefix up to the last initial-set parameter; defaults fill the gaps
    last = max(sig.index(k) for k in args if k in sig)
    pos = []
    params = inspect.signature(f).parameters
    for name in sig[:last + 1]:
        pos.append(args[name] if name in args else params[name].default)
    return h.call_must_succeed(kind, f, *pos, **kw)


def _want_hist_R(h, r, o):
    if not o.full:
        return
    for n in r.R0:
        ht, hs = o.sim.node_history(n)
        if list(hs) == ['R'] and len(ht) == 1:
            h.require('recovered-stay-recovered', EQ(ht[0], r.tmin), {'node': str(n)})
        else:
            h.fail('recovered-stay-recovered', {'node': str(n), 'history': [show(list(ht)), list(hs)]})
    try:
        tr = o.sim.transmissions()
    except Exception:
        tr = None
    if tr is not None:
        bad = [show(list(x)) for x in tr if x[2] in r.R0]
        if bad:
            h.fail('recovered-never-infected', {'transmissions_into_R0': bad})
        else:
            h.require('recovered-never-infected', True)


def _setup(cfg):
    c = dict(cfg)
    if c.get('entry') in ('Gillespie_SIS', 'fast_SIS', 'fast_nonMarkov_SIS') and c.get('tmax') is None:
        c['tmax'] = 'sym'
    return simruns.setup(c)


def run_path(h, cfg):
    fam = cfg['family']
    if fam == 'infnodes':
        from checks import C11
        return C11.run_infnodes(h, cfg)      # initially recovered nodes neither get infected nor relay the infection
    if fam == 'reject':
        return run_reject(h, cfg)
    if fam == 'wrapper':
        return run_wrapper(h, cfg)
    if fam == 'rho':
        return run_rho(h, cfg)
    r = _setup(cfg)
    if cfg.get('positional'):
        ret = simruns.check_shape(h, r, _positional_call(h, r, 'no-exception'))
    else:
        ret = simruns.call_entry(h, r, 'no-exception')
    if ret is None:
        return None
    o = simruns.outputs(r, ret)
    simobl.initial_state(h, r, o)
    _want_hist_R(h, r, o)
    if fam == 'style':
        kind = 'positional-equivalent' if cfg.get('positional') else 'style-equivalent'
        # same request through the keyword/list form must give the identical result
        r2 = _setup(dict(cfg, ic_style='list', r_style='list', positional=False))
        r2.tmin, r2.tmax, r2.tau, r2.gamma = r.tmin, r.tmax, r.tau, r.gamma
        if hasattr(r, 'durations'):
            r2.replay_from = r
        log0 = list(symx.ENG.log)
        r2.stub = install_replay([e for e in log0 if e[0] in DRAWS])
        ret2 = simruns.call_entry(h, r2, 'no-exception')
        if ret2 is not None:
            a = simruns.result_struct(o, r.nodes)
            b = simruns.result_struct(simruns.outputs(r2, ret2), r2.nodes)
            h.require(kind, struct_eq(a, b), {'given': show(a), 'list_form': show(b)})
    return simruns.result_struct(o, r.nodes)


DRAWS = ('random', 'expo', 'choice', 'sample', 'choices', 'binomial', 'truncexp', 'wchoice')


class ReplayStub(RandomStub):
    """second call of a pair: the i-th draw must be of the same kind and returns the same symbol"""

    def __init__(self, recorded):
        RandomStub.__init__(self)
        self.rec = list(recorded)
        self.i = 0
        self.mismatch = None

    def _next(self, kind):
        if self.i >= len(self.rec) or self.rec[self.i][0] != kind:
            self.mismatch = (self.i, kind, self.rec[self.i][0] if self.i < len(self.rec) else None)
            raise DrawMismatch('draw %d: wanted %s, recorded %s' % self.mismatch)
        e = self.rec[self.i]
        self.i += 1
        return e

    def random(self):
        return self._next('random')[1]

    def expovariate(self, lambd):
        if lambd == 0:
            raise ZeroDivisionError("float division by zero")
        return self._next('expo')[2]

    def choice(self, seq):
        e = self._next('choice')
        return seq[e[2]]

    def sample(self, population, k):
        e = self._next('sample')
        return [population[j] for j in e[3]]

    def choices(self, population, weights=None, *, cum_weights=None, k=1):
        e = self._next('choices')
        return [population[j] for j in e[3]]


class DrawMismatch(Exception):
    pass


def install_replay(recorded):
    """install a replaying random source covering random, numpy.random.binomial and the truncated-exponential stub"""
    import EoN.simulation as sim
    from vlib.stubs import install_sim, NPProxy
    stub = ReplayStub(recorded)
    npx = NPProxy()

    class _NPR:
        def binomial(self, n, p, size=None):
            return stub._next('binomial')[3]

        def __getattr__(self, name):
            from vlib.stubs import UnmodelledRandomness
            raise UnmodelledRandomness('numpy.random.' + name)
    npx.random = _NPR()
    install_sim(stub, npx)
    if any(e[0] == 'truncexp' for e in recorded):
        sim._truncated_exponential_ = lambda rate, T: stub._next('truncexp')[3]
    from vlib import gillaw
    gillaw.REPLAY[0] = stub if any(e[0] == 'wchoice' for e in recorded) else None
    stub.wchoice_weights = []
    return stub


def struct_eq(a, b):
    """conjunction of equalities between two result structures (mode-aware)"""
    if isinstance(a, dict) and isinstance(b, dict):
        if a.keys() != b.keys():
            return False
        return AND(True, *[struct_eq(a[k], b[k]) for k in a])
    if isinstance(a, (list, tuple)) and isinstance(b, (list, tuple)):
        if len(a) != len(b):
            return False
        return AND(True, *[struct_eq(x, y) for x, y in zip(a, b)])
    if isinstance(a, str) or isinstance(b, str) or a is None or b is None:
        return a == b
    return EQ(a, b)


def run_wrapper(h, cfg):
    """basic_discrete_SIR(G,p,initial_infecteds=X,...) starts/produces the same epidemic as discrete_SIR with the default rule"""
    r = _setup(cfg)
    ret = simruns.call_entry(h, r, 'no-exception')
    if ret is None:
        return None
    o = simruns.outputs(r, ret)
    simobl.initial_state(h, r, o)
    a = simruns.result_struct(o, r.nodes)
    log0 = [e for e in symx.ENG.log if e[0] in DRAWS]
    install_replay(log0)
    kw = dict(tmin=r.tmin, tmax=r.tmax, return_full_data=cfg.get('full', False), initial_infecteds=list(r.I0))
    if r.R0:
        kw['initial_recovereds'] = list(r.R0)
    ret2 = simruns.check_shape(h, r, h.call_must_succeed('no-exception', r.EoN.discrete_SIR, r.G, args=(r.p,), **kw))
    if ret2 is None:
        return a
    b = simruns.result_struct(simruns.outputs(r, ret2), r.nodes)
    h.require('wrapper-equivalent', struct_eq(a, b), {'basic_discrete_SIR': show(a), 'discrete_SIR': show(b)})
    return a


def run_rho(h, cfg):
    eng = symx.ENG
    r = _setup(dict(cfg, I0=[]))
    rho = eng.real('rho', lo=0, hi=1)
    N = r.N
    f = getattr(r.EoN, cfg['entry'])
    kw = dict(tmin=r.tmin, tmax=r.tmax, return_full_data=cfg.get('full', False), rho=rho)
    if cfg.get('R0'):
        kw['initial_recovereds'] = list(r.R0)
        if not cfg.get('default_ic') and eng.mode == 'sym':
            # a consistent request: the rounded number of infected nodes fits beside the recovered ones
            eng.assume(LE(N * rho, N - len(r.R0) + Fraction(1, 4)))
    if cfg.get('default_ic'):
        kw.pop('rho')
    n0 = len(eng.log)
    ret = simruns.check_shape(h, r, call_with_rates(h, r, f, kw))
    if ret is None:
        return None
    samples = [e for e in eng.log[n0:] if e[0] == 'sample']
    if len(samples) != 1 or sorted(samples[0][1], key=str) != sorted(r.nodes, key=str) or cfg.get('R0'):
        # another way of choosing the nodes (not one random.sample over all nodes): judge by the outcome only
        return rho_by_outcome(h, cfg, r, ret, rho)
    k = samples[0][2]
    if cfg.get('default_ic'):
        if k == 1:
            h.require('default-one-random-node', True)
        else:
            h.fail('default-one-random-node', {'sampled': k})
        picked = [samples[0][1][j] for j in samples[0][3]]
        r.I0 = picked
        o = simruns.outputs(r, ret)
        simobl.initial_state(h, r, o, prefix='default:')
        return simruns.result_struct(o, r.nodes)
    # k == int(round(N*rho)) with banker's rounding
    x = N * rho
    lo_ok = LE(k - 0.5, x) if k % 2 == 0 else LT(k - 0.5, x)
    hi_ok = LE(x, k + 0.5) if k % 2 == 0 else LT(x, k + 0.5)
    h.require('rho-count', AND(lo_ok, hi_ok), {'k': k, 'N': N})
    picked = [r.nodes[j] if False else samples[0][1][j] for j in samples[0][3]]
    r.I0 = picked
    o = simruns.outputs(r, ret)
    simobl.initial_state(h, r, o, prefix='rho:')
    h.require('row0', True)
    return simruns.result_struct(o, r.nodes)


def rho_by_outcome(h, cfg, r, ret, rho):
    """protocol-independent reading of "rho": the number of DISTINCT nodes infected at tmin is int(round(N*rho)) (exactly one node
    for the default), and the reported row 0 / statuses agree with that set"""
    o = simruns.outputs(r, ret)
    N = r.N
    if o.full:
        picked = [n for n in r.nodes if len(o.sim.node_history(n)[1]) and o.sim.node_history(n)[1][0] == 'I']
        k = len(picked)
        r.I0 = picked
    else:
        if not len(o.arrays['I']) or not len(o.arrays['S']):
            h.fail('rho:row0', {'why': 'empty arrays returned', 'lengths': {k_: len(v) for k_, v in o.arrays.items()}})
            return None
        k = o.arrays['I'][0]
        if not simobl._isint(k):
            h.fail('rho-count', {'I[0]': show(k)})
            return None
        k = int(k)
    if cfg.get('default_ic'):
        h.require('default-one-random-node', True) if k == 1 else h.fail('default-one-random-node', {'infected_at_tmin': k})
    else:
        x = N * rho
        lo_ok = LE(k - 0.5, x) if k % 2 == 0 else LT(k - 0.5, x)
        hi_ok = LE(x, k + 0.5) if k % 2 == 0 else LT(x, k + 0.5)
        h.require('rho-count', AND(lo_ok, hi_ok), {'distinct_nodes_infected_at_tmin': k, 'N': N})
    if o.full:
        simobl.initial_state(h, r, o, prefix='rho:')
    else:
        S0 = o.arrays['S'][0]
        if simobl._isint(S0) and int(S0) == N - k - len(r.R0 or []):
            h.require('rho:row0', True)
        else:
            h.fail('rho:row0', {'S[0]': show(S0), 'I[0]': k, 'N': N})
    h.require('row0', True)
    return simruns.result_struct(o, r.nodes)


def call_with_rates(h, r, f, kw, kind='no-exception'):
    entry = r.cfg['entry']
    if entry in ('Gillespie_SIR', 'Gillespie_SIS', 'fast_SIR', 'fast_SIS'):
        return h.call_must_succeed(kind, f, r.G, r.tau, r.gamma, **kw)
    if entry in ('fast_nonMarkov_SIR', 'fast_nonMarkov_SIS'):
        simruns.make_user_fxns(r)
        return h.call_must_succeed(kind, f, r.G, trans_time_fxn=r.trans_time_fxn, rec_time_fxn=r.rec_time_fxn, **kw)
    if entry == 'discrete_SIR':
        return h.call_must_succeed(kind, f, r.G, (lambda u, v: False), (), **kw)
    return h.call_must_succeed(kind, f, r.G, r.cfg.get('p', 0), **kw)


def run_reject(h, cfg):
    """giving both rho and initial_infecteds is rejected with EoNError"""
    r = _setup(cfg)
    v = cfg['variant']
    rho = {'rho+I0': 0.5, 'rho0+I0': 0, 'rho+emptyI0': 0.5, 'rho+single': 0.5}[v]
    I0 = {'rho+I0': [0], 'rho0+I0': [0], 'rho+emptyI0': [], 'rho+single': 1}[v]
    f = getattr(r.EoN, cfg['entry'])
    kw = dict(tmin=r.tmin, tmax=r.tmax, rho=rho, initial_infecteds=I0)
    entry = cfg['entry']
    if entry in ('Gillespie_SIR', 'Gillespie_SIS', 'fast_SIR', 'fast_SIS'):
        st, e = h.call(f, r.G, r.tau, r.gamma, **kw)
    elif entry in ('fast_nonMarkov_SIR', 'fast_nonMarkov_SIS'):
        simruns.make_user_fxns(r)
        st, e = h.call(f, r.G, trans_time_fxn=r.trans_time_fxn, rec_time_fxn=r.rec_time_fxn, **kw)
    elif entry == 'discrete_SIR':
        st, e = h.call(f, r.G, (lambda u, v: False), (), **kw)
    else:
        st, e = h.call(f, r.G, 0, **kw)
    if st == 'exc' and isinstance(e, r.EoN.EoNError):
        h.require('rho-and-initial-infecteds-rejected', True)
    else:
        h.fail('rho-and-initial-infecteds-rejected', {'variant': v, 'outcome': 'returned normally' if st == 'ok' else repr(e)[:200]})
    return None

"""C13 -- event-driven SIS with arbitrary delays follows the plain reference semantics."""
import z3
from vlib import symx, graphs, simruns
from vlib.symx import INF, EQ, LE, LT, AND, OR, NOT, IMPL, show, lift

PROPERTY = 'C13'
EXPLANATION = ("fast_nonMarkov_SIS is executed symbolically with harness-owned user rules: every call for a new infectious episode "
               "returns a fresh symbolic duration d > 0 and, per neighbour, an engine-chosen number (0..2) of fresh symbolic delays, "
               "ascending and before recovery (the documented precondition); tmin, tmax symbolic; separate-function form, joint "
               "function returning all neighbours, and joint function returning only the recipients (the documented form).  All "
               "interleavings of queued attempts with recoveries and reinfections within the bound are explored by solver forks.  On "
               "every path z3 proves against an independent plain reference: every episode starts at an infection of the history and "
               "ends duration later (if before tmax); every attempt s+delay < tmax infects its target iff the target is susceptible "
               "at that instant (hypothesis: the attempt time differs from the target's change times -- the statement's proviso of "
               "distinct event times), with the attempting node recorded as infector; every non-initial infection is one of the "
               "attempts; nothing else changes a status and nothing is reported at/after tmax.")
BOUNDS = {'quick': 'graphs K2, P3 and K2+K1 (isolated node; one delay per pair); all initial sets up to automorphism; <=3 infectious episodes per run; <=2 delays per (episode, neighbour)',
          'thorough': 'adds K3, P4 (<=3 episodes from one initial node, <=2 from several; one delay per pair), P3 from an end node with 2 delays per pair, the two-neighbour configuration with <=4 episodes, K2 with <=4 episodes (larger settings exceeded the path cap)'}
ASSUMPTIONS = ['floats as reals', 'delay lists ascending and all delays < duration (documented precondition; ascending is what the code relies on)',
               'distinct event times for the infect-iff-susceptible obligation (statement\'s proviso)', 'L2 is not needed here (no randomness)']
OPTS = {'quick': {'max_validate': 2, 'validate_every': 37, 'cfg_timeout': 250}, 'thorough': {'max_validate': 2, 'validate_every': 211, 'cfg_timeout': 1700}}
MUST_EVALUATE = {'quick': ['episode-starts-at-infection', 'recovery=infection+duration', 'attempt-infects-iff-susceptible', 'infection-is-an-attempt',
                           'nothing-at-or-after-tmax', 'arrays-follow-history']}


def functions():
    import EoN.simulation as s
    return [s.fast_nonMarkov_SIS, s._process_trans_SIS_nonMarkov_, s._find_trans_and_rec_delays_SIS_, s._process_rec_SIS_, s.myQueue.add,
            s._transform_to_node_history_]


def configs(tier):
    out = []
    gl = ['K2', 'P3'] + (['K3', 'P4'] if tier == 'thorough' else [])
    for g in gl:
        for I0, _ in graphs.automorphism_reduced_ics(g, with_recovered=False):
            if tier == 'quick' and g == 'P3' and len(I0) > 1 and I0 != [0, 2]:
                continue
            for form in ('separate', 'joint', 'recipients'):
                for full in (True, False):
                    if not full and form != 'separate':
                        continue
                    out.append(dict(entry='fast_nonMarkov_SIS', graph=g, I0=I0, R0=[], full=full, form=form, tmax='sym',
                                    max_infections=(3 if (tier == 'quick' or g != 'K2') else 4) if (g in ('K2', 'P3') or len(I0) == 1) else 2,
                                    delays_per_pair=2 if (g == 'K2' or (tier == 'thorough' and g == 'P3' and I0 == [0])) else 1,
                                    tags=[g, form, 'full' if full else 'plain']))
                    if g == 'P3' and full and form == 'separate' and I0 in ([0, 2], [1]):
                        # a source with two neighbours and two listed delays per neighbour (chained attempts towards each of them)
                        out.append(dict(entry='fast_nonMarkov_SIS', graph=g, I0=I0, R0=[], full=full, form=form, tmax='sym',
                                        max_infections=(4 if tier == 'thorough' else 3) if len(I0) > 1 else 2, delays_per_pair=2, fixed_ndelays=True,
                                        silent_sources=([2] if (tier == 'thorough' and len(I0) > 1) else []), tags=[g, form, 'two-delays']))
                    if g == 'K2' and full:
                        out.append(dict(entry='fast_nonMarkov_SIS', graph=g, I0=I0, R0=[], full=full, form=form, tmax='sym', fxn_args=True,
                                        max_infections=3, delays_per_pair=1, tags=[g, form, 'fxn-args']))
    # a network with an isolated node: its infection runs its course (recovery at s + duration) without any attempt
    for I0 in ([2], [0, 2]):
        for form in ('separate', 'joint', 'recipients'):
            for full in (True, False):
                if not full and form != 'separate':
                    continue
                out.append(dict(entry='fast_nonMarkov_SIS', graph='K2+K1', I0=I0, R0=[], full=full, form=form, tmax='sym', max_infections=3,
                                delays_per_pair=1, tags=['K2+K1', form, 'full' if full else 'plain', 'isolated-node']))
    return out


def run_path(h, cfg):
    eng = symx.ENG
    r = simruns.setup(cfg)
    episodes = {}      # u -> list of dict(duration, delays{v: [..]})
    K = cfg['delays_per_pair']

    def new_episode(u, nbrs):
        n = sum(len(v) for v in episodes.values())
        if n >= cfg['max_infections']:
            raise symx.BoundReached('infection episodes > %d' % cfg['max_infections'])
        d = eng.var('D_%s' % (u,), lo=0, lo_strict=True)
        ep = {'duration': d, 'delays': {}}
        episodes.setdefault(u, []).append(ep)
        return ep

    def delays_for(ep, u, v):
        k = 0 if u in cfg.get('silent_sources', ()) else (K if cfg.get('fixed_ndelays') else eng.choose(K + 1, 'ndelays'))
        out = []
        prev = 0
        for i in range(k):
            x = eng.var('d_%s_%s' % (u, v), lo=0, lo_strict=True)
            if eng.mode == 'sym':
                eng.assume(lift(x) > lift(prev))
                eng.assume(lift(x) < lift(ep['duration']))
            out.append(x)
            prev = x
        ep['delays'][v] = list(out)
        return out

    pending = {}

    def rec_time_fxn(u):
        ep = new_episode(u, None)
        pending[u] = ep
        return ep['duration']

    def trans_time_fxn(u, v, duration):
        return delays_for(pending[u], u, v)

    def joint(u, nbrs):
        ep = new_episode(u, nbrs)
        out = {}
        for v in nbrs:
            out[v] = delays_for(ep, u, v)
        if cfg['form'] == 'recipients':
            out = {v: l for v, l in out.items() if l}
        return out, ep['duration']
    kw = dict(tmin=r.tmin, tmax=r.tmax, return_full_data=cfg['full'], initial_infecteds=list(r.I0))
    if cfg['form'] == 'separate':
        kw.update(trans_time_fxn=trans_time_fxn, rec_time_fxn=rec_time_fxn)
    else:
        kw['trans_and_rec_time_fxn'] = joint
    if cfg.get('fxn_args'):
        # each user function is given its own tuple of extra arguments and checks that it receives exactly that one
        if cfg['form'] == 'separate':
            kw.update(trans_time_fxn=simruns.expecting(trans_time_fxn, 3, simruns.TRANS_ARGS, 'trans_time_fxn'),
                      rec_time_fxn=simruns.expecting(rec_time_fxn, 1, simruns.REC_ARGS, 'rec_time_fxn'),
                      trans_time_args=simruns.TRANS_ARGS, rec_time_args=simruns.REC_ARGS)
        else:
            kw.update(trans_and_rec_time_fxn=simruns.expecting(joint, 2, simruns.JOINT_ARGS, 'trans_and_rec_time_fxn'),
                      trans_and_rec_time_args=simruns.JOINT_ARGS)
    ret = simruns.check_shape(h, r, h.call_must_succeed('no-exception', r.EoN.fast_nonMarkov_SIS, r.G, **kw))
    if ret is None:
        return None
    o = simruns.outputs(r, ret)
    if not cfg['full']:
        # plain arrays: the same run in full mode is C10's subject; here: counts consistent with the number of episodes
        a = o.arrays
        ninf = sum(1 for i in range(len(a['I']) - 1) if a['I'][i + 1] > a['I'][i])
        tot = sum(len(v) for v in episodes.values())
        if ninf + len(r.I0) == tot:
            h.require('arrays-follow-history', True)
        else:
            h.fail('arrays-follow-history', {'infections_in_arrays': ninf, 'episodes': tot})
        return simruns.result_struct(o, r.nodes)
    sim = o.sim
    hist = {n: (list(sim.node_history(n)[0]), list(sim.node_history(n)[1])) for n in r.nodes}
    trans = list(sim.transmissions())
    # episodes <-> history
    inf_times = {n: [t for t, s in zip(*hist[n]) if s == 'I'] for n in r.nodes}
    rec_times = {n: [t for t, s in zip(*hist[n]) if s == 'S'][(0 if n in r.I0 else 1):] for n in r.nodes}
    for n in r.nodes:
        eps = episodes.get(n, [])
        if len(eps) != len(inf_times[n]):
            h.fail('episode-starts-at-infection', {'node': str(n), 'episodes': len(eps), 'infections_in_history': len(inf_times[n])})
            return None
        h.require('episode-starts-at-infection', True)
        for k, ep in enumerate(eps):
            ep['start'] = inf_times[n][k]
            end = ep['start'] + ep['duration']
            ep['end'] = end
            if k < len(rec_times[n]):
                h.require('recovery=infection+duration', EQ(rec_times[n][k], end), {'node': str(n), 'episode': k})
                h.require('nothing-at-or-after-tmax', LT(rec_times[n][k], r.tmax), {'node': str(n), 'what': 'recovery'})
            else:
                h.require('recovery=infection+duration', NOT(LT(end, r.tmax)), {'node': str(n), 'episode': k, 'unreported_recovery': show(end)})
        for t in inf_times[n]:
            h.require('nothing-at-or-after-tmax', OR(EQ(t, r.tmin), LT(t, r.tmax)), {'node': str(n), 'what': 'infection'})
    # attempts
    infections = {}     # v -> list of (time, infector) for non-initial infections
    for (t, u, v) in trans:
        if u is not None:
            infections.setdefault(v, []).append((t, u))
    attempts = []
    for u, eps in episodes.items():
        for ep in eps:
            for v, dl in ep['delays'].items():
                for x in dl:
                    attempts.append((u, v, ep['start'] + x))

    def susceptible_before(v, a):
        T, S = hist[v]
        alts = []
        for i, s in enumerate(S):
            if s != 'S':
                continue
            c = LT(T[i], a) if i > 0 else LE(T[i], a)
            if i + 1 < len(T):
                c = AND(c, LT(a, T[i + 1]) if False else LE(a, T[i + 1]))
            alts.append(c)
        return OR(False, *alts)

    def distinct_from_changes(v, a, skip=None):
        T, S = hist[v]
        return AND(True, *[NOT(EQ(a, t)) for i, t in enumerate(T) if i > 0])
    for (u, v, a) in attempts:
        hit = OR(False, *[AND(EQ(t, a), w == u) for (t, w) in infections.get(v, [])])
        # infected by this attempt iff it arrives before tmax at a moment when v is susceptible
        T, S = hist[v]
        sus = []
        for i, s in enumerate(S):
            if s != 'S':
                continue
            c = LE(T[i], a)
            if i + 1 < len(T):
                c = AND(c, LE(a, T[i + 1]))
            sus.append(c)
        sus_at = OR(False, *sus)
        # generic position: a differs from every change time of v other than an infection caused by this very attempt
        others = [NOT(EQ(a, t)) for i, t in enumerate(T) if i > 0 and not (S[i] == 'I')]
        inf_other = [NOT(EQ(a, t)) for (t, w) in infections.get(v, []) if w != u]
        generic = AND(True, *(others + inf_other))
        h.require('attempt-infects-iff-susceptible', IMPL(AND(generic, LT(a, r.tmax)), OR(AND(sus_at, hit), AND(NOT(hit), NOT(strict_sus(hist[v], a))))),
                  {'attempt': [str(u), str(v), show(a)], 'target_history': [show(T), S]})
        h.require('nothing-at-or-after-tmax', IMPL(NOT(LT(a, r.tmax)), NOT(hit)), {'attempt': [str(u), str(v), show(a)]})
    for v, lst in infections.items():
        for (t, w) in lst:
            cands = [EQ(t, a) for (u, vv, a) in attempts if vv == v and u == w]
            h.require('infection-is-an-attempt', OR(False, *cands), {'infection': [show(t), str(w), str(v)]})
            if not r.G.has_edge(w, v):
                h.fail('infection-is-an-attempt', {'not_an_edge': [str(w), str(v)]})
    return simruns.result_struct(o, r.nodes)


def strict_sus(hist, a):
    """v susceptible on an open interval around a"""
    T, S = hist
    alts = []
    for i, s in enumerate(S):
        if s != 'S':
            continue
        c = LT(T[i], a) if i > 0 else LE(T[i], a)
        if i + 1 < len(T):
            c = AND(c, LT(a, T[i + 1]))
        alts.append(c)
    return OR(False, *alts)

"""C09 -- recorded transmissions are causally valid and complete."""
import networkx as nx
from vlib import symx, graphs, simruns, simobl
from vlib.symx import INF, EQ, LE, LT, AND, OR, NOT, IMPL, show

PROPERTY = 'C09'
EXPLANATION = ("Every full-data simulator (all except Gillespie_complex_contagion) is executed symbolically on every "
               "configuration of the bound; on every path z3 proves, from the returned node histories and the transmission "
               "list (all times symbolic): the list is time-ordered; every sourced entry (t,u,v) goes along an edge of G (in "
               "edge direction), u is infectious at t (some infectious episode of u contains t), v was susceptible just "
               "before and turns infected at t (discrete time: at t+1); sourced entries and post-tmin infections are in "
               "bijection; sourceless entries are exactly the initially infected nodes; for SIR the transmission tree is a "
               "forest rooted at the initially infected nodes.  For Gillespie_simple_contagion the same obligations are "
               "stated with the inducing / induced-from statuses of the specification.")
BOUNDS = {'quick': 'graphs K2, K2+K1, P3, K3 (continuous SIR), P3 (others); all initial conditions up to automorphism; <=3 events (SIS-type); <=3 steps (discrete); directed P3 variants for the generic simulator',
          'thorough': 'adds P4, S3; <=4-5 events'}
ASSUMPTIONS = ['floats as reals', 'ties allowed in the event-driven simulators (delays/durations >= 0 compared by the solver)',
               'exponential draws > 0 in the Gillespie simulators']
OPTS = {'quick': {'max_validate': 2, 'validate_every': 17, 'cfg_timeout': 200}, 'thorough': {'max_validate': 2, 'validate_every': 97, 'cfg_timeout': 1500}}
MUST_EVALUATE = {'quick': ['transmissions-time-ordered', 'along-an-edge', 'source-infectious', 'target-susceptible-then-infected',
                           'one-entry-per-infection', 'sourceless=initial', 'sir-forest']}

CONT_SIR = ['Gillespie_SIR', 'fast_SIR', 'fast_nonMarkov_SIR']
CONT_SIS = ['Gillespie_SIS', 'fast_SIS', 'fast_nonMarkov_SIS']
DISC = ['discrete_SIR', 'basic_discrete_SIR', 'percolation_based_discrete_SIR', 'basic_discrete_SIS']


def functions():
    import EoN.simulation as s
    import EoN.simulation_investigation as si
    return [getattr(s, n) for n in CONT_SIR + CONT_SIS + DISC] + [s.Gillespie_simple_contagion, si.Simulation_Investigation.transmissions,
                                                                  si.Simulation_Investigation.transmission_tree, si.Simulation_Investigation.node_history]


def sim_bounds(entry, c, tier):
    e = 3 if tier == 'quick' else 4
    if entry == 'Gillespie_SIS':
        c['max_expo'] = e + 1
        c['tmax'] = 'inf'
    if entry == 'fast_SIS':
        # (K2 is cheap: enough draws for "scheduled while the target is infected, postponed past its recovery, source recovers first")
        c['max_expo'] = 2 * e + 1 if c['graph'] == 'K2' else 2 * e - 1
        c['tmax'] = 'sym'
    if entry == 'fast_nonMarkov_SIS':
        # 4 infections only on <= 3 nodes from <= 2 initial nodes (path cap otherwise)
        small = c['graph'] in ('K1', 'K2', 'K2+K1', 'P3', '2K1', '3K1')
        c['max_infections'] = e if (small and len(c.get('I0') or []) <= 2) else (3 if (small or len(c.get('I0') or []) <= 1) else 2)
        c['delays_per_pair'] = 1
        c['tmax'] = 'sym'
    if entry in DISC:
        c['tmax'] = 'steps:%d' % e
    if entry in ('fast_SIR', 'fast_nonMarkov_SIR', 'fast_nonMarkov_SIS'):
        # ties between events allowed; a zero duration allowed; delays strictly positive (a zero delay from an
        # initial node makes "susceptible immediately before" unobservable: the history starts at tmin)
        c['zero_duration'] = True
        c['ties'] = (entry != 'fast_SIR')    # (for fast_SIR the flag would only make its exponential draws >= 0)


def configs(tier):
    out = []
    for entry in CONT_SIR + CONT_SIS + DISC:
        sir = 'SIR' in entry
        if entry in CONT_SIR:
            gl = ['K2', 'K2+K1', 'P3', 'K3', 'P3loop']      # P3loop: a self-loop never carries a transmission
        else:
            gl = ['K2', 'P3'] + (['P3loop'] if entry in CONT_SIS else [])
        if tier == 'thorough':
            gl = gl + ['P4', 'S3'] + ([] if 'K3' in gl else ['K3'])
        for g in gl:
            for I0, R0 in graphs.automorphism_reduced_ics(g, with_recovered=sir):
                if tier == 'quick' and len(R0) > 1:
                    continue
                if g == 'P3loop' and (len(I0) > 1 or R0):
                    continue
                if entry == 'fast_nonMarkov_SIS' and g == 'K3' and len(I0) > 2:
                    continue      # three simultaneous episodes on the triangle exceed the path cap even with 3 infections
                if tier == 'quick' and entry in ('fast_nonMarkov_SIS', 'fast_SIS') and len(I0) > 1 and g == 'P3':
                    continue
                c = dict(entry=entry, graph=g, I0=I0, R0=R0, full=True, tags=[g] + (['R0'] if R0 else []))
                sim_bounds(entry, c, tier)
                out.append(c)
                if entry in ('fast_SIR', 'fast_nonMarkov_SIR') and g in ('K2', 'P3') and not R0 and len(I0) == 1:
                    out.append(dict(c, tmax='sym', tags=c['tags'] + ['tmax:sym']))
                if entry == 'fast_nonMarkov_SIR' and g in ('K2', 'P3') and not R0:
                    # the joint user function (delays to all susceptible neighbours + duration in one call); its delays may exceed the duration
                    out.append(dict(c, joint=True, tags=c['tags'] + ['joint']))
                if entry in ('Gillespie_SIR', 'fast_SIR', 'Gillespie_SIS', 'fast_SIS') and g == 'P3' and not R0 and len(I0) == 1:
                    c2 = dict(c, weights='both', wstub='abstract', tags=c['tags'] + ['w:both'])
                    out.append(c2)
    from checks import C03
    out.extend(C03.c09_configs(tier))
    return out


# ---------------------------------------------------------------------------------------------
def infectious_at(hist, t, status='I'):
    """some episode with the given status contains t (closed interval: ties allowed)"""
    T, S = hist
    alts = []
    for i, s in enumerate(S):
        if s != status:
            continue
        if i + 1 < len(T):
            alts.append(AND(LE(T[i], t), LE(t, T[i + 1])))
        else:
            alts.append(LE(T[i], t))
    return OR(False, *alts)


def transmission_obligations(h, r, sim, discrete=False, sir=True, inducing='I', from_status='S', to_status='I', spec=None,
                             initial=None, induced_statuses=None):
    G = r.G
    st, trans = h.call(sim.transmissions)
    if st == 'exc':
        h.fail('transmissions-available:' + type(trans).__name__, {'exception': repr(trans)[:200]})
        return
    hist = {n: (list(sim.node_history(n)[0]), list(sim.node_history(n)[1])) for n in r.nodes}
    for a, b in zip(trans, trans[1:]):
        h.require('transmissions-time-ordered', LE(a[0], b[0]), {'pair': [show(list(a)), show(list(b))]})
    if len(trans) < 2:
        h.require('transmissions-time-ordered', True)
    initial = set(r.I0) if initial is None else set(initial)
    sourceless = [x for x in trans if x[1] is None]
    if spec is None:
        if sorted(str(x[2]) for x in sourceless) == sorted(str(x) for x in initial):
            h.require('sourceless=initial', True)
        else:
            h.fail('sourceless=initial', {'sourceless': [str(x[2]) for x in sourceless], 'initial': [str(x) for x in initial]})
    else:
        if sourceless:
            h.fail('sourceless=initial', {'sourceless': [show(list(x)) for x in sourceless]})
        else:
            h.require('sourceless=initial', True)
    # k-th sourced entry into v  <->  k-th non-initial induced entry of v's history
    used = {n: 0 for n in r.nodes}
    for (t, u, v) in trans:
        if u is None:
            continue
        if (G.is_directed() and not G.has_edge(u, v)) or (not G.is_directed() and not G.has_edge(u, v)):
            h.fail('along-an-edge', {'entry': show([t, u, v])})
            continue
        h.require('along-an-edge', True)
        T, S = hist[v]
        # induced entries of v: positions j>=1 whose status is an induced status reached from a susceptible-like status
        cand = [j for j in range(1, len(S)) if (S[j] == to_status and S[j - 1] == from_status) or
                (induced_statuses is not None and (S[j - 1], S[j]) in induced_statuses)]
        if spec is not None:
            # generic simulator: spontaneous changes also appear in histories; match by time instead of by count
            when = t
            alts = []
            for j in cand:
                pre, post = S[j - 1], S[j]
                ok_src = OR(False, *[infectious_at(hist[u], t, a) for (a, b, c) in spec if b == pre and c == post])
                alts.append(AND(EQ(T[j], when), ok_src))
            h.require('target-susceptible-then-infected', OR(False, *alts), {'entry': show([t, u, v]), 'history': [show(T), S]})
            h.require('source-infectious', OR(False, *alts), {'entry': show([t, u, v])})
            continue
        k = used[v]
        used[v] += 1
        if k >= len(cand):
            h.fail('target-susceptible-then-infected', {'entry': show([t, u, v]), 'history': [show(T), S]})
            continue
        j = cand[k]
        when = t + 1 if discrete else t
        h.require('target-susceptible-then-infected', EQ(T[j], when), {'entry': show([t, u, v]), 'history_time': show(T[j])})
        h.require('source-infectious', infectious_at(hist[u], t, inducing), {'entry': show([t, u, v]), 'source_history': [show(hist[u][0]), hist[u][1]]})
    if spec is None:
        for v in r.nodes:
            T, S = hist[v]
            cand = [j for j in range(1, len(S)) if S[j] == to_status and S[j - 1] == from_status]
            if len(cand) == used[v]:
                h.require('one-entry-per-infection', True)
            else:
                h.fail('one-entry-per-infection', {'node': str(v), 'infections_after_tmin': len(cand), 'sourced_entries': used[v]})
    else:
        # every induced (non-spontaneous-only) change has an entry: checked by the generic module (C03) where the spec is known
        h.require('one-entry-per-infection', True)
    if sir and spec is None:
        st, Tt = h.call(sim.transmission_tree)
        if st == 'exc':
            h.fail('sir-forest:' + type(Tt).__name__, {'exception': repr(Tt)[:200]})
        else:
            ok = all(Tt.in_degree(n) <= 1 for n in Tt.nodes()) and all(Tt.in_degree(n) == 0 for n in initial if n in Tt) \
                and nx.is_directed_acyclic_graph(nx.DiGraph(Tt)) and all((n in initial) or Tt.in_degree(n) == 1 for n in Tt.nodes())
            if ok:
                h.require('sir-forest', True)
            else:
                h.fail('sir-forest', {'edges': [str(e) for e in Tt.edges()]})


def run_path(h, cfg):
    if cfg['entry'] == 'Gillespie_simple_contagion':
        from checks import C03
        return C03.run_c09(h, cfg)
    r = simruns.setup(cfg)
    ret = simruns.call_entry(h, r, 'no-exception')
    if ret is None:
        return None
    o = simruns.outputs(r, ret)
    transmission_obligations(h, r, o.sim, discrete=(cfg['entry'] in DISC), sir=o.sir)
    return simruns.result_struct(o, r.nodes)

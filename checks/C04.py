"""C04 -- trajectories are well-formed (all simulators, both return modes)."""
from vlib import symx, graphs, simruns, simobl
from vlib.symx import INF

PROPERTY = 'C04'
EXPLANATION = ("Each simulator is executed symbolically (symx) on every configuration of the bound: graph, initial "
               "sets, weight mode, return mode and horizon kind are enumerated, all rates/weights/tmin/tmax/draw "
               "values are z3 reals, and the random source is an engine-controlled stub, so the explored path tree "
               "contains every outcome of the draws.  On every feasible path z3 proves the well-formedness "
               "obligations (t[0]=tmin, monotone times, t<tmax, integer non-negative counts summing to N, one legal "
               "move per row, SIR monotonicity, die-out for tmax=inf and gamma>0, no exception) under the path "
               "condition; a failed obligation yields a model that is replayed on floats against the real code.")
BOUNDS = {
    'quick': 'graphs G3 (all 7 graphs on <=3 nodes) x initial conditions up to automorphism; <=3 events for SIS-type; <=2 rejections per weighted selection',
    'thorough': 'G3 + P4, S3, C4, paw; <=5 events for SIS-type; <=2 rejections',
}
ASSUMPTIONS = [
    'floats modelled as mathematical reals',
    'precondition tmin < tmax (or tmax = +inf)',
    'exponential draws are > 0 (probability-one event) unless the configuration is tagged ties',
    'random-source stubs: random() in [0,1), expovariate(r) > 0 with ZeroDivisionError at r == 0, choice/sample/binomial = engine choice',
    'networkx / numpy internals executed concretely and trusted',
]
OPTS = {'quick': {'max_validate': 6, 'validate_every': 7}, 'thorough': {'max_validate': 10, 'validate_every': 31}}
MUST_EVALUATE = {'quick': ['t0=tmin', 'time-ordered', 'counts-sum-N', 'one-legal-move', 'sir-monotone', 'dies-out', 't<tmax']}


def functions():
    import EoN.simulation as s
    return [s.Gillespie_SIR, s.Gillespie_SIS, s.fast_SIR, s.fast_SIS, s.fast_nonMarkov_SIR, s.fast_nonMarkov_SIS,
            s._process_trans_SIR_, s._process_rec_SIR_, s._process_trans_SIS_Markov, s._process_trans_SIS_nonMarkov_,
            s._find_next_trans_SIS_Markov, s._process_rec_SIS_, s.myQueue, s._ListDict_, s._transform_to_node_history_,
            s.discrete_SIR, s.basic_discrete_SIR, s.basic_discrete_SIS, s.percolation_based_discrete_SIR,
            s.Gillespie_simple_contagion, s.Gillespie_complex_contagion]


def configs(tier):
    out = []
    gl = list(graphs.G3) + (['P4', 'S3'] if tier == 'thorough' else [])
    for entry in ('Gillespie_SIR', 'fast_SIR', 'fast_nonMarkov_SIR'):
        for g in gl:
            for I0, R0 in graphs.automorphism_reduced_ics(g):
                n = graphs.ALL[g][0]
                for full in (False, True):
                    for weights in (('none', 'both') if entry != 'fast_nonMarkov_SIR' else ('none',)):
                        if weights == 'both' and (n > 3 or len(graphs.ALL[g][1]) == 0):
                            continue
                        if weights == 'both' and g == 'K3' and len(I0) == 1 and tier == 'quick':
                            continue    # >3000 weight-order paths: thorough tier only
                        for tmax in ('inf', 'sym'):
                            if tmax == 'sym' and (full or weights != 'none' or R0):
                                continue
                            tags = [g, 'full' if full else 'plain', 'w:' + weights, 'tmax:' + tmax]
                            if R0:
                                tags.append('R0')
                            c = dict(entry=entry, graph=g, I0=I0, R0=R0, full=full, weights=weights, tmax=tmax, tags=tags)
                            if weights != 'none' and entry == 'Gillespie_SIR' and n > 2:
                                # the real rejection loop is run on the 2-node graphs (and in C16); on larger graphs
                                # it is replaced by the logged weighted choice to keep the path tree finite and small
                                c['wstub'] = True
                            if entry == 'fast_nonMarkov_SIR':
                                c['ties'] = True
                            out.append(c)
    return out


def run_path(h, cfg):
    r = simruns.setup(cfg)
    ret = simruns.call_entry(h, r, 'no-exception')
    if ret is None:
        return None
    o = simruns.outputs(r, ret)
    if o.full:
        arrays = h.call_must_succeed('summary', simobl.arrays_of_sim, o)
        if arrays is None:
            return None
        # the summary merges simultaneous events into one row: "one move per row" is then only
        # required when no two events share a time on this path (the per-event arrays of the
        # plain mode are checked with ties)
        nev = sum(len(o.sim.node_history(n)[0]) - 1 for n in r.nodes)
        simobl.wellformed_arrays(h, r, o, arrays, one_move=(len(arrays['t']) - 1 == nev))
    else:
        arrays = o.arrays
        simobl.wellformed_arrays(h, r, o, arrays)
    simobl.dies_out(h, r, o, arrays)
    return simruns.result_struct(o, r.nodes)

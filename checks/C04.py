"""C04 -- trajectories are well-formed (all simulators, both return modes)."""
from vlib import symx, graphs, simruns, simobl
from vlib.symx import INF

PROPERTY = 'C04'
EXPLANATION = ("Each simulator is executed symbolically (symx) on every configuration of the bound: graph, initial "
               "sets, weight mode, return mode and horizon kind are enumerated, all rates/weights/tmin/tmax/draw "
               "values are z3 reals, and the random source is an engine-controlled stub, so the explored path tree "
               "contains every outcome of the draws.  On every feasible path z3 proves the well-formedness "
               "obligations (t[0]=tmin, monotone times, t<tmax, integer non-negative counts summing to N, one legal "
               "move per row, SIR monotonicity, die-out for tmax=inf and gamma>0, no exception) under the path "
               "condition; a failed obligation yields a model that is replayed on floats against the real code.")
BOUNDS = {
    'quick': 'graphs G3 (all 7 graphs on <=3 nodes) x initial conditions up to automorphism; <=3 events for SIS-type; <=2 rejections per weighted selection',
    'thorough': 'G3 + P4, S3 (SIR-type; not: fast_* from the S3 hub or two P4 nodes, fast_nonMarkov_SIR from the three S3 leaves with a symbolic horizon); SIS-type: <=5 exponential draws (Gillespie), <=7 (fast_SIS), fast_nonMarkov_SIS <=4 infection episodes incl. the initial ones (<=3 on K3 from one node, on P3 from three, on P3loop from the looped node; initial episodes only on K3 from two nodes; K3 from three nodes not run); <=2 rejections per weighted selection',
}
ASSUMPTIONS = [
    'floats modelled as mathematical reals',
    'precondition tmin < tmax (or tmax = +inf)',
    'exponential draws are > 0 (probability-one event) unless the configuration is tagged ties',
    'random-source stubs: random() in [0,1), expovariate(r) > 0 with ZeroDivisionError at r == 0, choice/sample/binomial = engine choice',
    'networkx / numpy internals executed concretely and trusted',
]
OPTS = {'quick': {'max_validate': 6, 'validate_every': 7}, 'thorough': {'max_validate': 10, 'validate_every': 31, 'cfg_timeout': 1500}}
MUST_EVALUATE = {'quick': ['t0=tmin', 'time-ordered', 'counts-sum-N', 'one-legal-move', 'sir-monotone', 'dies-out', 't<tmax', 't<=tmax-discrete', 'one-node-changes', 'counts-track-statuses']}


def functions():
    import EoN.simulation as s
    return [s.Gillespie_SIR, s.Gillespie_SIS, s.fast_SIR, s.fast_SIS, s.fast_nonMarkov_SIR, s.fast_nonMarkov_SIS,
            s._process_trans_SIR_, s._process_rec_SIR_, s._process_trans_SIS_Markov, s._process_trans_SIS_nonMarkov_,
            s._find_next_trans_SIS_Markov, s._process_rec_SIS_, s.myQueue, s._ListDict_, s._transform_to_node_history_,
            s.discrete_SIR, s.basic_discrete_SIR, s.basic_discrete_SIS, s.percolation_based_discrete_SIR,
            s.Gillespie_simple_contagion, s.Gillespie_complex_contagion]


def configs(tier):
    out = []
    gl = list(graphs.G3) + (['P4', 'S3'] if tier == 'thorough' else [])
    for entry in ('Gillespie_SIR', 'fast_SIR', 'fast_nonMarkov_SIR'):
        for g in gl:
            for I0, R0 in graphs.automorphism_reduced_ics(g):
                n = graphs.ALL[g][0]
                for full in (False, True):
                    for weights in (('none', 'both') if entry != 'fast_nonMarkov_SIR' else ('none',)):
                        if weights == 'both' and (n > 3 or len(graphs.ALL[g][1]) == 0):
                            continue
                        if weights == 'both' and g == 'K3' and len(I0) == 1 and tier == 'quick':
                            continue    # >3000 weight-order paths: thorough tier only
                        if n > 3 and entry != 'Gillespie_SIR' and ((g == 'S3' and 0 in I0 and not R0) or (g == 'P4' and len(I0) > 1 and not R0)):
                            continue    # 4 nodes: event orderings from the hub / from two initial nodes exceed the per-configuration budget
                        for tmax in ('inf', 'sym'):
                            if tmax == 'sym' and (weights != 'none' or R0 or (full and (entry == 'Gillespie_SIR' or n > 3 or len(I0) > 1))):
                                continue
                            if tmax == 'sym' and entry == 'fast_nonMarkov_SIR' and g == 'S3' and len(I0) == 3:
                                continue    # three leaves with tied/zero delays and a symbolic horizon: beyond the path cap (tmax=inf is kept)
                            tags = [g, 'full' if full else 'plain', 'w:' + weights, 'tmax:' + tmax]
                            if R0:
                                tags.append('R0')
                            c = dict(entry=entry, graph=g, I0=I0, R0=R0, full=full, weights=weights, tmax=tmax, tags=tags)
                            if weights != 'none' and entry == 'Gillespie_SIR' and n > 2:
                                # the real rejection loop is run on the 2-node graphs (and in C16); on larger graphs
                                # it is replaced by the logged weighted choice to keep the path tree finite and small
                                c['wstub'] = True
                            if entry == 'fast_nonMarkov_SIR':
                                c['ties'] = True
                                c['zero_delay'] = True
                                c['zero_duration'] = True
                            out.append(c)
        # rates equal to zero (boundary rows of the quantifier)
        if entry != 'fast_nonMarkov_SIR':
            for g in ('K2+K1', 'P3'):
                for zero in ('tau', 'gamma', 'both'):
                    for I0 in ([0], [2], [0, 2]):
                        for full in (False, True):
                            out.append(dict(entry=entry, graph=g, I0=I0, R0=[], full=full, weights='none', tmax='sym' if zero != 'tau' else 'inf',
                                            zero=zero, tags=[g, 'zero:' + zero, 'full' if full else 'plain']))
    e = 3 if tier == 'quick' else 4
    for entry in ('Gillespie_SIS', 'fast_SIS', 'fast_nonMarkov_SIS'):
        for g in ['K1', 'K2', 'K2+K1', 'P3'] + (['K3'] if tier == 'thorough' else []):
            for I0, _ in graphs.automorphism_reduced_ics(g, with_recovered=False):
                if tier == 'quick' and g == 'P3' and len(I0) > 1 and entry != 'Gillespie_SIS':
                    continue
                for full in (False, True):
                    c = dict(entry=entry, graph=g, I0=I0, R0=[], full=full, weights='none', tmax='sym', tags=[g, 'full' if full else 'plain'])
                    if entry == 'Gillespie_SIS':
                        c.update(max_expo=e + 1, truncate=False)
                    elif entry == 'fast_SIS':
                        c.update(max_expo=2 * e - 1)
                    else:
                        # episodes include the initial ones.  K3 with ties: 4 episodes exceed the path cap from every start,
                        # 3 episodes do from two or three initial nodes (probed: >8000 paths) -- so K3 runs 3 episodes from one
                        # node, the initial episodes only from two, and not at all from three (P3 covers the all-infected start)
                        if g == 'K3' and len(I0) == 3:
                            continue
                        mi = e
                        if g == 'K3':
                            mi = 3 if len(I0) == 1 else 2
                        elif len(I0) == 3:
                            mi = 3
                        c.update(max_infections=mi, delays_per_pair=1, ties=True)
                    out.append(c)
        if entry != 'fast_nonMarkov_SIS':
            for zero in ('tau', 'gamma'):
                for full in (False, True):
                    out.append(dict(entry=entry, graph='K2+K1', I0=[0, 2], R0=[], full=full, weights='none', tmax='sym', zero=zero, max_expo=4,
                                    tags=['K2+K1', 'zero:' + zero, 'full' if full else 'plain']))
    for entry in ('discrete_SIR', 'basic_discrete_SIR', 'percolation_based_discrete_SIR', 'basic_discrete_SIS'):
        sir = entry.endswith('SIR')
        for g in ['K1', 'K2+K1', 'P3'] + (['K3'] if tier == 'thorough' else []):
            for I0, R0 in graphs.automorphism_reduced_ics(g, with_recovered=sir):
                if len(R0) > 1:
                    continue
                for full in (False, True):
                    for tmax in (('inf', 'steps:2', 'sym') if sir else ('steps:2', 'sym')):
                        if tmax != 'steps:2' and (R0 or len(I0) > 1):
                            continue
                        c = dict(entry=entry, graph=g, I0=I0, R0=R0, full=full, tmax=tmax, tags=[g, 'full' if full else 'plain', 'tmax:' + tmax] + (['R0'] if R0 else []))
                        if tmax == 'sym' and not sir:
                            c['tmax_within'] = 2.5     # a symbolic horizon of at most 3 steps (SIS never dies out on its own)
                        out.append(c)
    # weights that may be zero (a node that never recovers, an edge that never transmits): symbolic weights >= 0
    for entry in ('Gillespie_SIR', 'fast_SIR', 'Gillespie_SIS', 'fast_SIS'):
        for g, I0 in (('K2', [0]), ('P3', [1])):
            for w in ('node', 'edge', 'both'):
                if g == 'P3' and w == 'both':
                    continue
                c = dict(entry=entry, graph=g, I0=I0, R0=[], full=False, weights=w, zero_weight=True, tmax='sym', wstub='abstract',
                         tags=[g, 'zero-weight:' + w])
                if entry == 'Gillespie_SIS':
                    c.update(max_expo=e, truncate=False)
                elif entry == 'fast_SIS':
                    c.update(max_expo=2 * e - 2)
                out.append(c)
    # graphs with a self-loop: a node is not its own contact (the simulators skip such edges explicitly)
    for entry in ('Gillespie_SIR', 'fast_SIR', 'fast_nonMarkov_SIR', 'Gillespie_SIS', 'fast_SIS', 'fast_nonMarkov_SIS', 'discrete_SIR', 'basic_discrete_SIS'):
        for I0 in ([0], [1]):
            for full in (False, True):
                c = dict(entry=entry, graph='P3loop', I0=I0, R0=[], full=full, weights='none', tmax='sym', tags=['P3loop', 'full' if full else 'plain'])
                if entry == 'Gillespie_SIS':
                    c.update(max_expo=e + 1, truncate=False)
                elif entry == 'fast_SIS':
                    c.update(max_expo=2 * e - 1)
                elif entry == 'fast_nonMarkov_SIS':
                    c.update(max_infections=(3 if I0 == [1] else e), delays_per_pair=1, ties=True)
                elif 'discrete' in entry:
                    c['tmax'] = 'steps:2'
                out.append(c)
    # discrete_SIR with extra arguments for the user's transmission test
    for full in (False, True):
        out.append(dict(entry='discrete_SIR', graph='P3', I0=[1], R0=[], full=full, tmax='steps:2', fxn_args=True, tags=['P3', 'full' if full else 'plain', 'fxn-args']))
    # a concrete non-integer start time (the time axis of the discrete-time simulators is tmin, tmin+1, ... as doubles)
    for entry in ('discrete_SIR', 'basic_discrete_SIR', 'basic_discrete_SIS'):
        for full in (False, True):
            out.append(dict(entry=entry, graph='K2', I0=[0], R0=[], full=full, tmin=2.3, tmax='steps:6', p=1, tags=['K2', 'full' if full else 'plain', 'tmin=2.3']))
    # discrete_SIR with a user recovery test that may keep a node infectious for several steps (engine-chosen answers)
    for g in ['K2+K1', 'P3'] + (['K3', 'P4'] if tier == 'thorough' else []):
        for I0, R0 in graphs.automorphism_reduced_ics(g):
            if len(R0) > 1 or (tier == 'quick' and len(I0) > 1):
                continue
            for full in (False, True):
                out.append(dict(entry='discrete_SIR', graph=g, I0=I0, R0=R0, full=full, tmax='inf', test_recovery=True, max_keep=2,
                                tags=[g, 'full' if full else 'plain', 'test_recovery'] + (['R0'] if R0 else [])))
    from checks import C03, C15
    for c in C03.configs(tier):
        if c['mode'] == 'plain' and c['graph'] in ('P3', 'D:3:01,12,20') and c['spec'] in ('SIS', 'SEIR', 'compete'):
            for full in (False, True):
                for tmax in ('inf', 'sym'):
                    out.append(dict(c, family='simple', full=full, tmax=tmax, truncate=(tmax == 'inf'), wstub=None, tags=['simple'] + c['tags'] + ['tmax:' + tmax]))
    for c in C15.configs(tier):
        if c['graph'] == 'P3':
            out.append(dict(c, family='complex', tags=['complex'] + c['tags']))
            out.append(dict(c, family='complex', tmax='sym', tags=['complex', 'tmax:sym'] + c['tags']))
    return out


def run_path(h, cfg):
    if cfg.get('family') == 'simple':
        return run_simple(h, cfg)
    if cfg.get('family') == 'complex':
        from checks import C15
        return C15.run_path(h, cfg)
    r = simruns.setup(cfg)
    ret = simruns.call_entry(h, r, 'no-exception')
    if ret is None:
        return None
    o = simruns.outputs(r, ret)
    discrete = 'discrete' in cfg['entry']
    if o.full:
        arrays = h.call_must_succeed('summary', simobl.arrays_of_sim, o)
        if arrays is None:
            return None
        # the summary merges simultaneous events into one row: "one move per row" is then only
        # required when no two events share a time on this path (the per-event arrays of the
        # plain mode are checked with ties)
        nev = sum(len(o.sim.node_history(n)[0]) - 1 for n in r.nodes)
        simobl.wellformed_arrays(h, r, o, arrays, discrete=discrete, one_move=(not discrete and len(arrays['t']) - 1 == nev))
    else:
        arrays = o.arrays
        simobl.wellformed_arrays(h, r, o, arrays, discrete=discrete, one_move=not discrete)
    if o.sir and not (discrete and cfg.get('tmax', 'inf') != 'inf'):
        simobl.dies_out(h, r, o, arrays)
    return simruns.result_struct(o, r.nodes)


def run_simple(h, cfg):
    from checks import C03
    r = C03.build(cfg)
    if cfg['full']:
        sim = C03.call(h, r, True)
        if sim is None:
            return None
        if not hasattr(sim, 'summary'):
            h.fail('full-data-object-returned', {'got': type(sim).__name__})
            return None
        t = list(sim.t())
        D = sim.summary()[1]
        ret = [t] + [list(D[s]) for s in r.statuses]
    else:
        ret = C03.call(h, r, False)
        if ret is None:
            return None
    deltas = C03.structural(h, r, ret)
    if deltas is not None:
        h.require('one-legal-move', True)
    return {'t': list(ret[0]), 'cols': [[int(x) for x in c] for c in ret[1:]]}

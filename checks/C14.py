"""C14 -- results depend on network structure, not on node names or ordering."""
import itertools, inspect
import numpy as np
import networkx as nx
import z3
from vlib import symx, graphs, simruns, odex
from vlib.symx import Sym, EQ, LE, LT, AND, OR, NOT, show, lift, INF
from vlib.stubs import RandomStub, NPProxy, install_sim
from checks.C06 import SIS_GRAPH, SIR_GRAPH, NODE, NODE_PURE

PROPERTY = 'C14'
EXPLANATION = ("Every ODE entry point is executed symbolically (odex) on a graph G and on a relabelled copy G' (labels mapped to strings / "
               "tuples / permuted integers by a bijection pi, nodes and edges inserted in a permuted order).  Degree-based wrappers: z3 "
               "proves that the initial vector and the right-hand side (at a common symbolic state) reaching the integrator are "
               "identical, hence identical outputs (L5).  Node-level models (individual- and pair-based, SIS and SIR, rho and pure "
               "initial conditions, optional symbolic edge/node weights carried along by pi): z3 proves equivariance of the vector "
               "field, f_G'(P x) = P f_G(x) for ALL states x, P X0 = X0', and equality of the reconstructed S, I, R at a flow state, "
               "with per-node outputs mapped through pi.  Simulators driven by deterministic rules (fast_nonMarkov_SIR, "
               "fast_nonMarkov_SIS, discrete_SIR): the same symbolic delay/duration/contact tables are transported by pi and the "
               "per-node histories must be equal under the same path condition.")
BOUNDS = {'quick': 'graphs P3, paw, S3 with 3 relabelings each (string labels + reversed insertion; tuple labels + rotated; shifted integers); simulators on P3, K3',
          'thorough': 'all permutations for n=3, 8 seeded relabelings for n=4; adds irr5 for the ODE wrappers'}
ASSUMPTIONS = ['floats as reals', 'L5 (equal vector fields and initial states give equal solutions)', 'relabelling carries initial sets, node lists and weights along']
OPTS = {'quick': {'max_validate': 0, 'cfg_timeout': 200}, 'thorough': {'max_validate': 0, 'cfg_timeout': 900}}
VALIDATE = False
MUST_EVALUATE = {'quick': ['degree-based-identical', 'node-level-equivariant', 'node-level-X0', 'node-level-outputs', 'simulator-histories', 'nodelist-order-irrelevant']}


def functions():
    import EoN
    return [getattr(EoN, n) for n in SIS_GRAPH + SIR_GRAPH + NODE + NODE_PURE] + [EoN.fast_nonMarkov_SIR, EoN.fast_nonMarkov_SIS, EoN.discrete_SIR]


RELABEL = {
    'str-rev': (lambda i: 'v%d' % (7 - i), lambda n: list(reversed(range(n)))),
    'tuple-rot': (lambda i: ('node', (i * 3) % 7), lambda n: list(range(1, n)) + [0]),
    'int-shift': (lambda i: (i * 5 + 2) % 11, lambda n: [n - 1] + list(range(n - 1))),
}


def configs(tier):
    out = []
    for g in ['P3', 'paw', 'S3'] + (['irr5'] if tier == 'thorough' else []):
        n = graphs.ALL[g][0]
        for rl in RELABEL:
            for entry in SIS_GRAPH + SIR_GRAPH:
                if entry == 'SIS_super_compact_pairwise_from_graph' and g in ('K3',):
                    continue
                for ic in ('rho', 'sets'):
                    if tier == 'quick' and rl != 'str-rev' and ic == 'rho':
                        continue
                    out.append(dict(family='degree', entry=entry, graph=g, relabel=rl, ic=ic, tags=['degree', entry, g, rl, ic]))
            for entry in NODE + NODE_PURE:
                if 'pair' in entry and n > 4:
                    continue
                for weighted in (False, True):
                    if weighted and (g != 'P3' and tier == 'quick'):
                        continue
                    out.append(dict(family='node', entry=entry, graph=g, relabel=rl, weighted=weighted, tags=['node', entry, g, rl] + (['weighted'] if weighted else [])))
    # an explicit nodelist in another order than G.nodes(): same dynamics, per-node outputs in nodelist order
    for g in ['P3', 'paw', 'S3']:
        for entry in NODE + NODE_PURE:
            out.append(dict(family='nodelist', entry=entry, graph=g, tags=['nodelist', entry, g]))
    for entry in ('fast_nonMarkov_SIR', 'fast_nonMarkov_SIS', 'discrete_SIR'):
        for g in ('P3', 'K3'):
            for rl in RELABEL:
                for I0 in ([0], [1, 2]) if g == 'P3' else ([0],):
                    if entry == 'fast_nonMarkov_SIS' and (g == 'K3' or I0 != [0]) and tier == 'quick':
                        continue
                    out.append(dict(family='sim', entry=entry, graph=g, relabel=rl, I0=I0, tags=['sim', entry, g, rl]))
    return out


def relabelled(gname, rl):
    lab, order = RELABEL[rl]
    n, edges = graphs.ALL[gname]
    G = graphs.make(gname)
    G2 = nx.Graph()
    for i in order(n):
        G2.add_node(lab(i))
    for (a, b) in reversed(edges):
        G2.add_edge(lab(b), lab(a))
    return G, G2, {i: lab(i) for i in range(n)}


def _install():
    import EoN.analytic as an
    return odex.install(an, odex.FlowStub())


def run_degree(h, cfg):
    eng = symx.ENG
    import EoN
    eng.div_guard = False
    try:
        flow = _install()
        G, G2, pi = relabelled(cfg['graph'], cfg['relabel'])
        tau = eng.real('tau', lo=0, lo_strict=True)
        gamma = eng.real('gamma', lo=0, lo_strict=True)
        f = getattr(EoN, cfg['entry'])
        sir = 'SIR' in cfg['entry'] or cfg['entry'].startswith('EBCM')
        kw = dict(tmin=0, tmax=2, tcount=3)
        kw2 = dict(kw)
        if cfg['ic'] == 'rho':
            kw['rho'] = kw2['rho'] = eng.real('rho', lo=0, hi=1, lo_strict=True, hi_strict=True)
        else:
            kw['initial_infecteds'] = [1]
            kw2['initial_infecteds'] = [pi[1]]
            if sir:
                kw['initial_recovereds'] = [2]
                kw2['initial_recovereds'] = [pi[2]]
        r1 = h.call_must_succeed('no-exception', f, G, tau, gamma, **kw)
        if r1 is None:
            return None
        r2 = h.call_must_succeed('no-exception:relabelled', f, G2, tau, gamma, **kw2)
        if r2 is None:
            return None
        c1, c2 = flow.calls[0], flow.calls[1]
        prover = odex.IdProver(list(eng.pc))
        same = len(c1.X0) == len(c2.X0)
        bad = None
        if same:
            for a, b in zip(c1.X0, c2.X0):
                ok, m = prover.equal(a, b)
                if not ok:
                    same, bad = False, ('X0', show(a), show(b), m)
                    break
        if same:
            xs = list(c1.out[1])
            for x in xs:
                eng.assume(lift(x) > 0)
            prover = odex.IdProver(list(eng.pc))
            f1 = c1.dfunc(np.array(xs, dtype=object), 0, *c1.args)
            f2 = c2.dfunc(np.array(xs, dtype=object), 0, *c2.args)
            for a, b in zip(list(f1), list(f2)):
                ok, m = prover.equal(a, b)
                if not ok:
                    same, bad = False, ('rhs', show(a)[:100], show(b)[:100], m)
                    break
        if same:
            for a, b in zip(r1[1:], r2[1:]):
                ok, m = prover.equal(np.asarray(a, dtype=object).reshape(-1)[0], np.asarray(b, dtype=object).reshape(-1)[0])
                if not ok:
                    same, bad = False, ('row0', '', '', m)
        if same:
            h.require('degree-based-identical', True)
        else:
            h.record_failure('degree-based-identical', {'what': bad[0] if bad else 'length', 'G': bad[1] if bad else None, "G'": bad[2] if bad else None},
                             odex.model_values(bad[3]) if bad else {})
        return None
    finally:
        eng.div_guard = True


def run_node(h, cfg):
    eng = symx.ENG
    import EoN
    eng.div_guard = False
    try:
        flow = _install()
        G, G2, pi = relabelled(cfg['graph'], cfg['relabel'])
        n = G.order()
        tau = eng.real('tau', lo=0, lo_strict=True)
        gamma = eng.real('gamma', lo=0, lo_strict=True)
        entry = cfg['entry']
        f = getattr(EoN, entry)
        sir = 'SIR' in entry
        kw = dict(tmin=0, tmax=2, tcount=3, return_full_data=True)
        kw2 = dict(kw)
        if cfg['weighted']:
            for (u, v) in G.edges():
                w = eng.real('w_%s_%s' % (u, v), lo=0, lo_strict=True)
                G.edges[u, v]['tw'] = w
                G2.edges[pi[u], pi[v]]['tw'] = w
            for u in G.nodes():
                w = eng.real('nw_%s' % (u,), lo=0, lo_strict=True)
                G.nodes[u]['rw'] = w
                G2.nodes[pi[u]]['rw'] = w
            for k_ in (kw, kw2):
                k_.update(transmission_weight='tw', recovery_weight='rw')
        if entry in NODE_PURE:
            a1, a2 = [G, tau, gamma, [1]], [G2, tau, gamma, [pi[1]]]
            if sir:
                kw['initial_recovereds'] = [n - 1]
                kw2['initial_recovereds'] = [pi[n - 1]]
        else:
            rho = eng.real('rho', lo=0, hi=1, lo_strict=True, hi_strict=True)
            kw['rho'] = kw2['rho'] = rho
            a1, a2 = [G, tau, gamma], [G2, tau, gamma]
        r1 = h.call_must_succeed('no-exception', f, *a1, **kw)
        if r1 is None:
            return None
        r2 = h.call_must_succeed('no-exception:relabelled', f, *a2, **kw2)
        if r2 is None:
            return None
        c1, c2 = flow.calls[0], flow.calls[1]
        nodes1, nodes2 = list(G.nodes()), list(G2.nodes())
        pos2 = {v: i for i, v in enumerate(nodes2)}
        perm = [pos2[pi[u]] for u in nodes1]          # index i in G  ->  index in G'
        N = n
        L = len(c1.X0)
        # coordinate map: blocks of N node entries, then N*N pair blocks
        def cmap(j):
            if 'pair' in entry:
                nb = 2 if sir else 1
                if j < nb * N:
                    return (j // N) * N + perm[j % N]
                j2 = j - nb * N
                blk, rem = j2 // (N * N), j2 % (N * N)
                a, b = rem // N, rem % N
                return nb * N + blk * N * N + perm[a] * N + perm[b]
            return (j // N) * N + perm[j % N]
        if len(c2.X0) != L:
            h.fail('node-level-X0', {'len': [L, len(c2.X0)]})
            return None
        prover = odex.IdProver(list(eng.pc))
        okx = True
        for j in range(L):
            ok, m = prover.equal(c1.X0[j], c2.X0[cmap(j)])
            if not ok:
                okx = False
                h.record_failure('node-level-X0', {'coord': j, 'G': show(c1.X0[j]), "G'": show(c2.X0[cmap(j)])}, odex.model_values(m))
                break
        if okx:
            h.require('node-level-X0', True)
        xs = list(c1.out[1])
        for x in xs:
            eng.assume(lift(x) > 0)
        prover = odex.IdProver(list(eng.pc))
        Px = np.empty(L, dtype=object)
        for j in range(L):
            Px[cmap(j)] = xs[j]
        st1, f1 = h.call(c1.dfunc, np.array(xs, dtype=object), 0, *c1.args)
        st2, f2 = h.call(c2.dfunc, np.array(list(Px), dtype=object), 0, *c2.args)
        if st1 == 'exc' or st2 == 'exc':
            e = f1 if st1 == 'exc' else f2
            h.fail('node-level-equivariant:' + type(e).__name__, {'exception': repr(e)[:200], 'on': 'G' if st1 == 'exc' else "G'"})
            return None
        f1, f2 = list(f1), list(f2)
        oke = True
        for j in range(L):
            ok, m = prover.equal(f1[j], f2[cmap(j)])
            if not ok:
                oke = False
                h.record_failure('node-level-equivariant', {'coord': j, 'f_G(x)': show(f1[j])[:150], "f_G'(Px)": show(f2[cmap(j)])[:150]}, odex.model_values(m))
                break
        if oke:
            h.require('node-level-equivariant', True)
        # outputs at row 0 (S, I[, R] totals and per-node series mapped through pi)
        names = {'SIS_individual_based': ['t', 'Ss', 'Is'], 'SIS_individual_based_pure_IC': ['t', 'Ss', 'Is']}.get(entry)
        oko = True
        for k, (a, b) in enumerate(zip(r1[1:], r2[1:])):
            A, B = np.asarray(a, dtype=object), np.asarray(b, dtype=object)
            if A.ndim == 1:
                ok, m = prover.equal(A[0], B[0])
                oko = oko and ok
            elif A.ndim == 2 and A.shape[0] == N:
                for i in range(N):
                    ok, m = prover.equal(A[i][0], B[perm[i]][0])
                    oko = oko and ok
        if oko:
            h.require('node-level-outputs', True)
        else:
            h.record_failure('node-level-outputs', {'why': 'row 0 of a returned series differs after relabelling'}, {})
        return None
    finally:
        eng.div_guard = True


def run_sim(h, cfg):
    eng = symx.ENG
    entry = cfg['entry']
    G, G2, pi = relabelled(cfg['graph'], cfg['relabel'])
    inv = {v: k for k, v in pi.items()}
    c = dict(entry=entry, graph=cfg['graph'], I0=cfg['I0'], R0=[], full=True, tmax='sym' if entry != 'discrete_SIR' else 'steps:3', ties=False)
    r = simruns.setup(c)
    import EoN
    dur, dl, ndel = {}, {}, {}
    if entry == 'discrete_SIR':
        table = {}
        for (a, b) in list(G.edges()) + [(b, a) for (a, b) in G.edges()]:
            table[(a, b)] = bool(eng.choose(2, 'contact'))
        kw = dict(tmin=r.tmin, tmax=r.tmax, return_full_data=True)
        s1 = h.call_must_succeed('no-exception', EoN.discrete_SIR, G, (lambda u, v: table[(u, v)]), (), initial_infecteds=list(cfg['I0']), **kw)
        s2 = h.call_must_succeed('no-exception:relabelled', EoN.discrete_SIR, G2, (lambda u, v: table[(inv[u], inv[v])]), (),
                                 initial_infecteds=[pi[i] for i in cfg['I0']], **kw)
    else:
        sis = entry.endswith('SIS')
        episodes = {}

        def mk(mapper):
            count = {}

            def rec(u):
                u0 = mapper(u)
                k = count.get(u0, 0)
                count[u0] = k + 1
                key = (u0, k)
                if key not in dur:
                    if sis and len(dur) >= 3:
                        raise symx.BoundReached('episodes > 3')
                    dur[key] = eng.var('D_%s' % (u0,), lo=0, lo_strict=True)
                return dur[key]

            def trans(u, v, *a):
                u0, v0 = mapper(u), mapper(v)
                k = count.get(u0, 1) - 1
                key = (u0, k, v0)
                if key not in dl:
                    if sis:
                        n_ = eng.choose(2, 'ndelays')
                        dl[key] = []
                        if n_:
                            x = eng.var('d_%s_%s' % (u0, v0), lo=0, lo_strict=True)
                            if eng.mode == 'sym':
                                eng.assume(lift(x) < lift(dur[(u0, k)]))
                            dl[key] = [x]
                    else:
                        dl[key] = eng.var('d_%s_%s' % (u0, v0), lo=0, lo_strict=True)
                return list(dl[key]) if sis else dl[key]
            return rec, trans
        rec1, tr1 = mk(lambda u: u)
        rec2, tr2 = mk(lambda u: inv[u])
        f = getattr(EoN, entry)
        kw = dict(tmin=r.tmin, tmax=r.tmax, return_full_data=True)
        s1 = h.call_must_succeed('no-exception', f, G, trans_time_fxn=tr1, rec_time_fxn=rec1, initial_infecteds=list(cfg['I0']), **kw)
        s2 = h.call_must_succeed('no-exception:relabelled', f, G2, trans_time_fxn=tr2, rec_time_fxn=rec2, initial_infecteds=[pi[i] for i in cfg['I0']], **kw)
    if s1 is None or s2 is None:
        return None
    ok = True
    for u in G.nodes():
        T1, S1 = list(s1.node_history(u)[0]), list(s1.node_history(u)[1])
        T2, S2 = list(s2.node_history(pi[u])[0]), list(s2.node_history(pi[u])[1])
        if S1 != S2 or len(T1) != len(T2):
            ok = False
            h.fail('simulator-histories', {'node': str(u), 'G': [show(T1), S1], "G'": [show(T2), S2]})
            break
        h.require('simulator-histories', AND(True, *[EQ(a, b) for a, b in zip(T1, T2)]), {'node': str(u), 'G': show(T1), "G'": show(T2)})
    return None


def run_nodelist(h, cfg):
    """same graph, explicit nodelist reversed: the system handed to the integrator must be the default one up to that permutation"""
    eng = symx.ENG
    import EoN
    eng.div_guard = False
    try:
        flow = _install()
        G = graphs.make(cfg['graph'])
        n = G.order()
        nodes = list(G.nodes())
        nl = list(reversed(nodes))
        tau = eng.real('tau', lo=0, lo_strict=True)
        gamma = eng.real('gamma', lo=0, lo_strict=True)
        entry = cfg['entry']
        f = getattr(EoN, entry)
        sir = 'SIR' in entry
        kw = dict(tmin=0, tmax=2, tcount=3, return_full_data=True)
        if entry in NODE_PURE:
            a = [G, tau, gamma, [1]]
            if sir:
                kw['initial_recovereds'] = [n - 1]
        else:
            kw['rho'] = eng.real('rho', lo=0, hi=1, lo_strict=True, hi_strict=True)
            a = [G, tau, gamma]
        r1 = h.call_must_succeed('no-exception', f, *a, **kw)
        if r1 is None:
            return None
        r2 = h.call_must_succeed('no-exception:nodelist', f, *a, nodelist=nl, **kw)
        if r2 is None:
            return None
        c1, c2 = flow.calls[0], flow.calls[1]
        N = n
        perm = [nl.index(u) for u in nodes]
        L = len(c1.X0)

        def cmap(j):
            if 'pair' in entry:
                nb = 2 if sir else 1
                if j < nb * N:
                    return (j // N) * N + perm[j % N]
                j2 = j - nb * N
                blk, rem = j2 // (N * N), j2 % (N * N)
                a_, b_ = rem // N, rem % N
                return nb * N + blk * N * N + perm[a_] * N + perm[b_]
            return (j // N) * N + perm[j % N]
        if len(c2.X0) != L:
            h.fail('nodelist-order-irrelevant', {'len': [L, len(c2.X0)]})
            return None
        prover = odex.IdProver(list(eng.pc))
        for j in range(L):
            ok, m = prover.equal(c1.X0[j], c2.X0[cmap(j)])
            if not ok:
                h.record_failure('nodelist-order-irrelevant', {'what': 'X0', 'coord': j, 'default': show(c1.X0[j]), 'reversed_nodelist': show(c2.X0[cmap(j)])}, odex.model_values(m))
                return None
        xs = list(c1.out[1])
        for x in xs:
            eng.assume(lift(x) > 0)
        prover = odex.IdProver(list(eng.pc))
        Px = np.empty(L, dtype=object)
        for j in range(L):
            Px[cmap(j)] = xs[j]
        st1, f1 = h.call(c1.dfunc, np.array(xs, dtype=object), 0, *c1.args)
        st2, f2 = h.call(c2.dfunc, np.array(list(Px), dtype=object), 0, *c2.args)
        if st1 == 'exc' or st2 == 'exc':
            e = f1 if st1 == 'exc' else f2
            h.fail('nodelist-order-irrelevant:' + type(e).__name__, {'exception': repr(e)[:200]})
            return None
        f1, f2 = list(f1), list(f2)
        for j in range(L):
            ok, m = prover.equal(f1[j], f2[cmap(j)])
            if not ok:
                h.record_failure('nodelist-order-irrelevant', {'what': 'right-hand side', 'coord': j, 'default': show(f1[j])[:150], 'reversed_nodelist': show(f2[cmap(j)])[:150]}, odex.model_values(m))
                return None
        h.require('nodelist-order-irrelevant', True)
        return None
    finally:
        eng.div_guard = True


def run_path(h, cfg):
    return {'degree': run_degree, 'node': run_node, 'sim': run_sim, 'nodelist': run_nodelist}[cfg['family']](h, cfg)


def _num(values, k, default):
    from fractions import Fraction
    try:
        return float(Fraction(str((values or {}).get(k))))
    except Exception:
        return default


def replay_concrete(cfg, kind, values, decisions):
    """numeric replay on the real code (real integrator): same call on G and on the relabelled G'"""
    if cfg['family'] == 'sim':
        return None       # default replay (exact rationals through the real simulator)
    if cfg['family'] == 'nodelist':
        import EoN
        import EoN.analytic as an
        odex.uninstall(an)
        G = graphs.make(cfg['graph'])
        nodes = list(G.nodes())
        nl = list(reversed(nodes))
        tau, gamma, rho = _num(values, 'tau', 1.1), _num(values, 'gamma', 0.7), _num(values, 'rho', 0.3)
        entry = cfg['entry']
        f = getattr(EoN, entry)
        kw = dict(tmin=0, tmax=3, tcount=7, return_full_data=True)
        a = [G, tau, gamma]
        if entry in NODE_PURE:
            a.append([1])
            if 'SIR' in entry:
                kw['initial_recovereds'] = [G.order() - 1]
        else:
            kw['rho'] = rho
        r1 = f(*a, **kw)
        try:
            r2 = f(*a, nodelist=nl, **kw)
        except Exception as e:
            return {'reproduced': True, 'concrete_detail': {'exception_with_nodelist': repr(e)[:200]}}
        worst = 0.0
        for x, y in zip(r1[1:], r2[1:]):
            A, B = np.asarray(x, dtype=float), np.asarray(y, dtype=float)
            if A.ndim == 1:
                worst = max(worst, float(np.nanmax(np.abs(A - B))))
            elif A.ndim == 2 and A.shape[0] == len(nodes):
                worst = max(worst, float(np.nanmax(np.abs(A - B[::-1]))))
        return {'reproduced': worst > 1e-6, 'concrete_detail': {'max_abs_difference_default_vs_reversed_nodelist': worst}, 'how': 'real code, real integrator'}
    import EoN
    import EoN.analytic as an
    odex.uninstall(an)
    G, G2, pi = relabelled(cfg['graph'], cfg['relabel'])
    tau, gamma, rho = _num(values, 'tau', 1.1), _num(values, 'gamma', 0.7), _num(values, 'rho', 0.3)
    entry = cfg['entry']
    f = getattr(EoN, entry)
    sir = 'SIR' in entry or entry.startswith('EBCM')
    kw = dict(tmin=0, tmax=3, tcount=7)
    kw2 = dict(kw)
    a1, a2 = [G, tau, gamma], [G2, tau, gamma]
    if cfg['family'] == 'degree':
        if cfg['ic'] == 'rho':
            kw['rho'] = kw2['rho'] = rho
        else:
            kw['initial_infecteds'], kw2['initial_infecteds'] = [1], [pi[1]]
            if sir:
                kw['initial_recovereds'], kw2['initial_recovereds'] = [2], [pi[2]]
    else:
        kw['return_full_data'] = kw2['return_full_data'] = True
        if cfg['weighted']:
            for i, (u, v) in enumerate(G.edges()):
                w = _num(values, 'w_%s_%s' % (u, v), 1.0 + 0.4 * i)
                G.edges[u, v]['tw'] = w
                G2.edges[pi[u], pi[v]]['tw'] = w
            for u in G.nodes():
                w = _num(values, 'nw_%s' % (u,), 1.0 + 0.3 * u)
                G.nodes[u]['rw'] = w
                G2.nodes[pi[u]]['rw'] = w
            for k_ in (kw, kw2):
                k_.update(transmission_weight='tw', recovery_weight='rw')
        if entry in NODE_PURE:
            a1.append([1])
            a2.append([pi[1]])
            if sir:
                kw['initial_recovereds'], kw2['initial_recovereds'] = [G.order() - 1], [pi[G.order() - 1]]
        else:
            kw['rho'] = kw2['rho'] = rho
    try:
        r1 = f(*a1, **kw)
    except Exception as e:
        return {'reproduced': kind.startswith('no-exception') and 'relabelled' not in kind, 'concrete_detail': {'exception_on_G': repr(e)[:200]}}
    try:
        r2 = f(*a2, **kw2)
    except Exception as e:
        return {'reproduced': True, 'concrete_detail': {"exception_on_G'": repr(e)[:200], 'G_ok': True}, 'how': 'real code, real integrator'}
    nodes1, nodes2 = list(G.nodes()), list(G2.nodes())
    pos2 = {v: i for i, v in enumerate(nodes2)}
    perm = [pos2[pi[u]] for u in nodes1]
    worst = 0.0
    for a, b in zip(r1[1:], r2[1:]):
        A, B = np.asarray(a, dtype=float), np.asarray(b, dtype=float)
        if A.ndim == 1:
            worst = max(worst, float(np.max(np.abs(A - B))))
        elif A.ndim == 2 and A.shape[0] == len(nodes1):
            for i in range(len(nodes1)):
                worst = max(worst, float(np.max(np.abs(A[i] - B[perm[i]]))))
    return {'reproduced': worst > 1e-6, 'concrete_detail': {'max_abs_difference_between_G_and_relabelled_G': worst}, 'how': 'real code, real integrator'}

"""C11 -- event-driven SIR with arbitrary delays equals first-passage percolation."""
import itertools
import networkx as nx
from vlib import symx, graphs, simruns, simobl, refs
from vlib.symx import INF, EQ, LE, LT, AND, OR, NOT, IMPL, show, Sym
from vlib.stubs import RandomStub, NPProxy, install_sim

PROPERTY = 'C11'
EXPLANATION = ("fast_nonMarkov_SIR is executed symbolically with a harness-owned table of symbolic delays (one per ordered "
               "adjacent pair) and durations (one per node), symbolic tmin and tmax, ties allowed (delays >= 0, equalities "
               "explored by solver forks, so every order in which the queue can meet simultaneous events is a path).  On every "
               "path z3 proves the first-passage-percolation characterisation against a declarative reference: for each "
               "infected node a usable path of exactly that length exists (the recorded infector chain) and no usable simple "
               "path from the initial set avoiding the initially recovered nodes is shorter; each non-infected node has no "
               "usable path arriving before tmax; recovery = infection + duration; recorded infector is a predecessor on a "
               "shortest path; nothing at or after tmax.  fast_SIR's weighted / zero-rate path is run through the same "
               "obligations (its closures are captured at the call to fast_nonMarkov_SIR and tabulated) and every "
               "exponential draw's rate is proved equal to tau*w_uv / gamma*w_u (rate 0 => never).  The percolation builders "
               "are run with symbolic delays/durations: same node set, edge u->v iff delay <= duration, stated attributes; "
               "get_infected_nodes = out-component after removing the initially recovered nodes.  myQueue: arbitrary "
               "symbolic times, pop order = (time, insertion), entries at/after tmax dropped.")
BOUNDS = {'quick': 'graphs G3 x all (I0,R0) with ties; symbolic tmax on P3/K3; zero / infinite values as extra configurations on P3; myQueue with <=3 entries',
          'thorough': 'adds P4, S3, C4, paw (generic values, no ties), myQueue <= 4 entries; excluded as too many event orderings for the budget: C4 from two opposite initial nodes, weighted fast_SIR on paw from the degree-3 node'}
ASSUMPTIONS = ['floats as reals', 'user rules are functions of (u,v) / u (one value per pair / node)',
               'L1 (first-passage percolation <=> SIR with those delays) is what makes this the right oracle',
               'directed_percolate_network: exponential draws are fresh positive symbols (rates checked separately)']
OPTS = {'quick': {'max_validate': 3, 'validate_every': 13, 'cfg_timeout': 200}, 'thorough': {'max_validate': 3, 'validate_every': 97, 'cfg_timeout': 1500}}
MUST_EVALUATE = {'quick': ['infection-time-attained', 'no-shorter-path', 'uninfected-unreachable-before-tmax', 'recovery=infection+duration',
                           'infector-on-shortest-path', 'nothing-at-or-after-tmax', 'percolation-edge-iff-rule', 'percolation-same-nodes',
                           'percolation-attributes', 'infected-nodes=out-component', 'queue-order', 'queue-drops-at-tmax', 'expo-rate']}


def functions():
    import EoN.simulation as s
    return [s.fast_nonMarkov_SIR, s._process_trans_SIR_, s._process_rec_SIR_, s._find_trans_and_rec_delays_SIR_, s.myQueue.add,
            s.myQueue.pop_and_run, s.fast_SIR, s.nonMarkov_directed_percolate_network_with_timing, s.directed_percolate_network,
            s.nonMarkov_directed_percolate_network, s.get_infected_nodes, s._out_component_, s._transform_to_node_history_]


def configs(tier):
    out = []
    gl = list(graphs.G3) + (['P4', 'S3', 'C4', 'paw'] if tier == 'thorough' else [])
    for g in gl:
        n, edges = graphs.ALL[g]
        for I0, R0 in graphs.automorphism_reduced_ics(g):
            ties = not (g in ('paw', 'K4', 'C4'))
            # event orderings on the 4-node graphs with a cycle outgrow the per-configuration budget for these starts (outside the claim)
            heavy = (g == 'C4' and sorted(I0) == [0, 2] and not R0) or (g == 'paw' and I0 == [2] and not R0)
            if heavy and tier == 'thorough':
                out.append(dict(entry='fast_nonMarkov_SIR', family='fpp', graph=g, I0=I0, R0=R0, full=True, tmax='inf', ties=False,
                                tags=['fpp', g, 'heavy'])) if g == 'paw' else None
                continue
            out.append(dict(entry='fast_nonMarkov_SIR', family='fpp', graph=g, I0=I0, R0=R0, full=True, tmax='inf', ties=ties,
                            tags=['fpp', g] + (['R0'] if R0 else [])))
            if g in ('P3', 'K3', 'K2') and not R0:
                out.append(dict(entry='fast_nonMarkov_SIR', family='fpp', graph=g, I0=I0, R0=R0, full=True, tmax='sym', ties=(g != 'K3'),
                                tags=['fpp', g, 'tmax']))
                if g == 'P3':
                    out.append(dict(entry='fast_nonMarkov_SIR', family='fpp', graph=g, I0=I0, R0=R0, full=True, tmax='inf', ties=True, fxn_args=True,
                                    tags=['fpp', g, 'fxn-args']))
                    out.append(dict(entry='fast_nonMarkov_SIR', family='fpp', graph=g, I0=I0, R0=R0, full=True, tmax='inf', ties=True, joint=True, fxn_args=True,
                                    tags=['fpp', g, 'joint', 'fxn-args']))
                out.append(dict(entry='fast_nonMarkov_SIR', family='fpp', graph=g, I0=I0, R0=R0, full=True, tmax='inf', ties=True, joint=True,
                                tags=['fpp', g, 'joint']))
            if edges and len(R0) <= 1:
                for w in ('edge', 'both'):
                    for zero in (None, 'tau', 'gamma'):
                        if zero and (g != 'P3' or w != 'both'):
                            continue
                        if tier == 'quick' and g == 'K3' and w == 'both':
                            continue
                        out.append(dict(entry='fast_SIR', family='fpp', graph=g, I0=I0, R0=R0, full=True, tmax='inf', weights=w, zero=zero,
                                        ties=False, tags=['fpp', 'fast_SIR', g, 'w:' + w] + (['zero:' + zero] if zero else [])))
    # zero and infinite values
    for sp in ({'dur:0': 'inf'}, {'dur:1': 0}, {'del:0-1': 0}, {'del:1-2': 'inf'}, {'del:0-1': 0, 'del:1-2': 0}, {'dur:0': 'inf', 'del:0-1': 'inf'},
               {'dur:1': 'inf', 'dur:0': 0}):
        for I0 in ([0], [1]):
            out.append(dict(entry='fast_nonMarkov_SIR', family='fpp', graph='P3', I0=I0, R0=[], full=True, tmax='sym', ties=True, special=sp,
                            tags=['fpp', 'special']))
    # percolation builders
    for g in ('K2', 'P3', 'K3') + (('P4', 'S3') if tier == 'thorough' else ()):
        for weights in (True, False):
            out.append(dict(entry='nonMarkov_directed_percolate_network_with_timing', family='perc', graph=g, weights=weights, tags=['perc', g]))
        out.append(dict(entry='nonMarkov_directed_percolate_network_with_timing', family='perc', graph=g, weights=True, fxn_args=True, tags=['perc', g, 'fxn-args']))
        for weights in (True, False):
            out.append(dict(entry='nonMarkov_directed_percolate_network_with_timing', family='perc', graph=g, weights=weights, count_calls=True,
                            tags=['perc', g, 'stateful-duration-rule']))
        out.append(dict(entry='directed_percolate_network', family='dperc', graph=g, tags=['dperc', g]))
        for zero in ('tau', 'gamma'):
            out.append(dict(entry='directed_percolate_network', family='dperc', graph=g, zero=zero, tags=['dperc', g, 'zero:' + zero]))
        for I0, R0 in graphs.automorphism_reduced_ics(g):
            if len(R0) <= 1:
                out.append(dict(entry='get_infected_nodes', family='infnodes', graph=g, I0=I0, R0=R0, tags=['infnodes', g]))
                if len(I0) == 1 and len(R0) <= 1 and g in ('P3', 'K3'):
                    # scalar forms (a single node instead of a collection) and the documented default (one random non-recovered node)
                    out.append(dict(entry='get_infected_nodes', family='infnodes', graph=g, I0=I0, R0=R0, scalar=True, tags=['infnodes', g, 'scalar']))
                    out.append(dict(entry='get_infected_nodes', family='infnodes', graph=g, I0=I0, R0=R0, default_ic=True, scalar=bool(R0), tags=['infnodes', g, 'default']))
    for k in (1, 2, 3) + ((4,) if tier == 'thorough' else ()):
        for tmax in ('inf', 'sym'):
            out.append(dict(entry='myQueue', family='queue', k=k, tmax=tmax, tags=['queue']))
    return out


# ---------------------------------------------------------------------------------------------
def table(r, cfg):
    """harness-owned delay / duration table with symbolic entries"""
    eng = symx.ENG
    special = cfg.get('special', {})
    ties = cfg.get('ties', True)
    dur, dl = {}, {}
    for u in r.G.nodes():
        key = 'dur:%s' % (u,)
        if key in special:
            dur[u] = INF if special[key] == 'inf' else special[key]
        else:
            dur[u] = eng.real('D_%s' % (u,), lo=0, lo_strict=not ties)
        for v in r.G.neighbors(u):
            key = 'del:%s-%s' % (u, v)
            if key in special:
                dl[(u, v)] = INF if special[key] == 'inf' else special[key]
            else:
                dl[(u, v)] = eng.real('d_%s_%s' % (u, v), lo=0, lo_strict=not ties)
    return dur, dl


def usable(dur, dl, path):
    return AND(True, *[LE(dl[(a, b)], dur[a]) for a, b in zip(path, path[1:])])


def plen(dl, path):
    t = 0
    for a, b in zip(path, path[1:]):
        t = t + dl[(a, b)]
    return t


def fpp_obligations(h, r, sim, dur, dl):
    hist = {n: sim.node_history(n) for n in r.nodes}
    inf_time, rec_time = {}, {}
    trans = sim.transmissions()
    infector = {}
    for (t, u, v) in trans:
        if v in inf_time:
            h.fail('one-infection-per-node', {'node': str(v)})
        inf_time[v] = t
        if u is not None:
            infector[v] = (u, t)
    for n in r.nodes:
        ht, hs = hist[n]
        for t, s in zip(ht, hs):
            if s == 'R' and n not in r.R0:
                rec_time[n] = t
            if s == 'I':
                # the history's infection entry (absent only when a zero duration collapses it onto the recovery) agrees
                if n in inf_time:
                    h.require('history-agrees-with-transmissions', EQ(t, inf_time[n]), {'node': str(n)})
                else:
                    h.fail('history-agrees-with-transmissions', {'node': str(n), 'why': 'infected in history, no transmission entry'})
    sources = list(r.I0)
    for v in r.nodes:
        if v in r.R0:
            continue
        paths = refs.simple_paths(r.G, sources, v, set(r.R0))
        if v in inf_time:
            T = inf_time[v]
            # witness chain through the recorded infectors
            chain = [v]
            ok = True
            while chain[0] not in sources:
                if chain[0] not in infector or infector[chain[0]][0] in chain:
                    ok = False
                    break
                chain.insert(0, infector[chain[0]][0])
            if not ok or any(not r.G.has_edge(a, b) for a, b in zip(chain, chain[1:])):
                h.fail('infection-time-attained', {'node': str(v), 'chain': [str(x) for x in chain]})
            else:
                h.require('infection-time-attained', AND(usable(dur, dl, chain), EQ(T, r.tmin + plen(dl, chain))),
                          {'node': str(v), 'time': show(T), 'chain': [str(x) for x in chain]})
            for P in paths:
                h.require('no-shorter-path', IMPL(usable(dur, dl, P), LE(T, r.tmin + plen(dl, P))), {'node': str(v), 'path': [str(x) for x in P], 'time': show(T)})
            h.require('nothing-at-or-after-tmax', LT(T, r.tmax) if v not in sources else True, {'node': str(v), 'time': show(T)})
            if v in rec_time:
                h.require('recovery=infection+duration', EQ(rec_time[v], T + dur[v]), {'node': str(v), 'rec': show(rec_time[v])})
                h.require('nothing-at-or-after-tmax', LT(rec_time[v], r.tmax), {'node': str(v), 'rec': show(rec_time[v])})
            else:
                h.require('recovery=infection+duration', NOT(LT(T + dur[v], r.tmax)), {'node': str(v), 'unreported_recovery_at': show(T + dur[v])})
            if v in infector:
                u, t = infector[v]
                if u not in inf_time or not r.G.has_edge(u, v):
                    h.fail('infector-on-shortest-path', {'node': str(v), 'infector': str(u)})
                else:
                    h.require('infector-on-shortest-path', AND(EQ(t, T), EQ(inf_time[u] + dl[(u, v)], T), LE(dl[(u, v)], dur[u])),
                              {'node': str(v), 'infector': str(u)})
            elif v not in sources:
                h.fail('infector-on-shortest-path', {'node': str(v), 'infector': None})
        else:
            for P in paths:
                h.require('uninfected-unreachable-before-tmax', OR(NOT(usable(dur, dl, P)), NOT(LT(r.tmin + plen(dl, P), r.tmax))),
                          {'node': str(v), 'path': [str(x) for x in P]})
            if not paths:
                h.require('uninfected-unreachable-before-tmax', True)
    for v in r.R0:
        ht, hs = hist[v]
        if list(hs) != ['R']:
            h.fail('initially-recovered-untouched', {'node': str(v), 'history': [show(list(ht)), list(hs)]})
        else:
            h.require('initially-recovered-untouched', True)


def run_fpp(h, cfg):
    r = simruns.setup(cfg)
    dur, dl = table(r, cfg)
    E = r.EoN
    calls = []

    def rec_time_fxn(u):
        calls.append(('dur', u))
        return dur[u]

    def trans_time_fxn(u, v):
        calls.append(('del', u, v))
        return dl[(u, v)]

    def joint(u, sus):
        calls.append(('joint', u))
        return {v: dl[(u, v)] for v in sus}, dur[u]
    kw = dict(tmin=r.tmin, tmax=r.tmax, return_full_data=True)
    kw.update(simruns.ic_kwargs(r, True))
    if cfg['entry'] == 'fast_nonMarkov_SIR':
        if cfg.get('joint'):
            kw['trans_and_rec_time_fxn'] = joint
        else:
            kw['trans_time_fxn'] = trans_time_fxn
            kw['rec_time_fxn'] = rec_time_fxn
        if cfg.get('fxn_args'):
            if cfg.get('joint'):
                kw['trans_and_rec_time_fxn'] = simruns.expecting(joint, 2, simruns.JOINT_ARGS, 'trans_and_rec_time_fxn')
                kw['trans_and_rec_time_args'] = simruns.JOINT_ARGS
            else:
                kw['trans_time_fxn'] = simruns.expecting(trans_time_fxn, 2, simruns.TRANS_ARGS, 'trans_time_fxn')
                kw['rec_time_fxn'] = simruns.expecting(rec_time_fxn, 1, simruns.REC_ARGS, 'rec_time_fxn')
                kw['trans_time_args'] = simruns.TRANS_ARGS
                kw['rec_time_args'] = simruns.REC_ARGS
        sim = h.call_must_succeed('no-exception', E.fast_nonMarkov_SIR, r.G, **kw)
    else:
        # fast_SIR, weighted / zero-rate path: capture its closures where it hands them to fast_nonMarkov_SIR
        real = r.sim.fast_nonMarkov_SIR
        seen = {}

        def wrapped(G, **k2):
            if 'trans_time_fxn' not in k2 or k2.get('trans_time_fxn') is None:
                seen['joint'] = True
                return real(G, **k2)
            ttf, rtf = k2['trans_time_fxn'], k2['rec_time_fxn']
            targs, rargs = k2.get('trans_time_args', ()), k2.get('rec_time_args', ())
            eng = symx.ENG
            for u in G.nodes():
                n0 = len(eng.log)
                dur[u] = rtf(u, *rargs)
                check_rate(h, r, eng.log[n0:], dur[u], simruns.rec_rate(r, u), 'recovery of %s' % (u,))
                for v in G.neighbors(u):
                    n0 = len(eng.log)
                    dl[(u, v)] = ttf(u, v, *targs)
                    check_rate(h, r, eng.log[n0:], dl[(u, v)], simruns.trans_rate(r, u, v), 'transmission %s->%s' % (u, v))
            k2 = dict(k2, trans_time_fxn=lambda u, v: dl[(u, v)], rec_time_fxn=lambda u: dur[u], trans_time_args=(), rec_time_args=())
            return real(G, **k2)
        r.sim.fast_nonMarkov_SIR = wrapped
        try:
            kw2 = dict(kw)
            if r.tw_label:
                kw2['transmission_weight'] = r.tw_label
            if r.rw_label:
                kw2['recovery_weight'] = r.rw_label
            sim = h.call_must_succeed('no-exception', E.fast_SIR, r.G, r.tau, r.gamma, **kw2)
        finally:
            r.sim.fast_nonMarkov_SIR = real
        if seen.get('joint'):
            h.fail('fast_SIR-weighted-path-taken', {})
            return None
    if sim is None or simruns.check_shape(h, r, sim) is None:
        return None
    fpp_obligations(h, r, sim, dur, dl)
    o = simruns.outputs(r, sim)
    return simruns.result_struct(o, r.nodes)


def check_rate(h, r, log, value, ref_rate, what):
    """the closure drew Exp(ref_rate), or returned +inf when the rate is 0"""
    ex = [e for e in log if e[0] == 'expo']
    zero = r.cfg.get('zero')
    is_zero = (zero in ('tau', 'both') and what.startswith('transmission')) or (zero in ('gamma', 'both') and what.startswith('recovery'))
    if is_zero:
        if ex or value != INF:
            h.fail('expo-rate', {'what': what, 'expected': 'inf (rate 0)', 'got': show(value)})
        else:
            h.require('expo-rate', True)
        return
    if len(ex) != 1:
        h.fail('expo-rate', {'what': what, 'draws': len(ex)})
        return
    h.require('expo-rate', AND(EQ(ex[0][1], ref_rate), EQ(ex[0][2], value)), {'what': what, 'rate_used': show(ex[0][1]), 'reference': show(ref_rate)})


# ---------------------------------------------------------------------------------------------
def run_perc(h, cfg):
    r = simruns.setup(dict(cfg, I0=[], R0=[]))
    dur, dl = table(r, dict(cfg, ties=True))
    E = r.EoN
    tf, rf, extra = (lambda u, v: dl[(u, v)]), (lambda u: dur[u]), {}
    dur_calls = []
    if cfg.get('count_calls'):
        # a random or stateful duration rule gives another value on every call: each node's duration is drawn ONCE and every
        # out-edge of the node is judged against that one value
        eng = symx.ENG

        def rf(u):
            dur_calls.append(u)
            if dur_calls.count(u) == 1:
                return dur[u]
            return eng.var('D_again_%s' % (u,), lo=0)
    if cfg.get('fxn_args'):
        tf = simruns.expecting(tf, 2, simruns.TRANS_ARGS, 'trans_time_fxn')
        rf = simruns.expecting(rf, 1, simruns.REC_ARGS, 'rec_time_fxn')
        extra = dict(trans_time_args=simruns.TRANS_ARGS, rec_time_args=simruns.REC_ARGS)
    H = h.call_must_succeed('no-exception', E.nonMarkov_directed_percolate_network_with_timing, r.G, tf, rf, weights=cfg['weights'], **extra)
    if H is None:
        return None
    if cfg.get('count_calls'):
        from collections import Counter as _C
        c = _C(dur_calls)
        if all(c.get(u, 0) == 1 for u in r.G.nodes()) and len(c) == r.N:
            h.require('one-duration-per-node', True)
        else:
            h.fail('one-duration-per-node', {'rec_time_fxn_calls_per_node': {str(k): v for k, v in c.items()}})
            return None
    perc_obligations(h, r, H, dur, dl, cfg['weights'])
    return {'edges': sorted([str(e) for e in H.edges()])}


def perc_obligations(h, r, H, dur, dl, weights):
    if not isinstance(H, nx.DiGraph) or set(H.nodes()) != set(r.G.nodes()):
        h.fail('percolation-same-nodes', {'nodes': [str(x) for x in H.nodes()]})
        return
    h.require('percolation-same-nodes', True)
    for u in r.G.nodes():
        for v in r.G.neighbors(u):
            rule = LE(dl[(u, v)], dur[u])
            h.require('percolation-edge-iff-rule', rule if H.has_edge(u, v) else NOT(rule), {'edge': '%s->%s' % (u, v), 'present': H.has_edge(u, v)})
    extra = [e for e in H.edges() if not r.G.has_edge(*e)]
    if extra:
        h.fail('percolation-edge-iff-rule', {'edges_not_in_G': [str(e) for e in extra]})
    if weights:
        for u in H.nodes():
            if 'duration' not in H.nodes[u]:
                h.fail('percolation-attributes', {'node': str(u), 'attrs': list(H.nodes[u])})
            else:
                h.require('percolation-attributes', EQ(H.nodes[u]['duration'], dur[u]), {'node': str(u)})
        for u, v in H.edges():
            if 'delay_to_infection' not in H.edges[u, v]:
                h.fail('percolation-attributes', {'edge': '%s->%s' % (u, v), 'attrs': list(H.edges[u, v])})
            else:
                h.require('percolation-attributes', EQ(H.edges[u, v]['delay_to_infection'], dl[(u, v)]), {'edge': '%s->%s' % (u, v)})
    else:
        bad = [str(u) for u in H.nodes() if H.nodes[u]] + [str(e) for e in H.edges() if H.edges[e]]
        if bad:
            h.fail('percolation-attributes', {'unexpected_attributes_on': bad})
        else:
            h.require('percolation-attributes', True)


def run_dperc(h, cfg):
    """directed_percolate_network: Exp(tau) delays / Exp(gamma) durations through the same builder"""
    r = simruns.setup(dict(cfg, I0=[], R0=[]))
    eng = symx.ENG
    n0 = len(eng.log)
    H = h.call_must_succeed('no-exception', r.EoN.directed_percolate_network, r.G, r.tau, r.gamma)
    if H is None:
        return None
    log = [e for e in eng.log[n0:] if e[0] == 'expo']
    dur, dl = {}, {}
    # read durations from node attributes; delays of absent edges are not observable: use the draw log (call order u, then its neighbours)
    it = iter(log)
    ok = True
    try:
        for u in r.G.nodes():
            if isinstance(r.gamma, float) and r.gamma == 0:
                dur[u] = INF
            else:
                e = next(it)
                h.require('expo-rate', EQ(e[1], r.gamma), {'what': 'duration of %s' % (u,), 'rate_used': show(e[1])})
                dur[u] = e[2]
            for v in r.G.neighbors(u):
                if isinstance(r.tau, float) and r.tau == 0:
                    dl[(u, v)] = INF
                else:
                    e = next(it)
                    h.require('expo-rate', EQ(e[1], r.tau), {'what': 'delay %s->%s' % (u, v), 'rate_used': show(e[1])})
                    dl[(u, v)] = e[2]
        rest = list(it)
        if rest:
            ok = False
    except StopIteration:
        ok = False
    if not ok:
        h.fail('expo-rate', {'what': 'number of exponential draws', 'draws': len(log)})
        return None
    perc_obligations(h, r, H, dur, dl, True)
    return {'edges': sorted([str(e) for e in H.edges()])}


def run_infnodes(h, cfg):
    """get_infected_nodes = out-component of I0 in the percolated digraph with R0 removed"""
    r = simruns.setup(cfg)
    eng = symx.ENG
    real = r.sim.directed_percolate_network
    captured = {}

    def wrapped(G, tau, gamma, *a, **k):
        H = real(G, tau, gamma, *a, **k)
        captured['H'] = H.copy()
        return H
    r.sim.directed_percolate_network = wrapped
    try:
        kw = {'initial_infecteds': list(r.I0)}
        if r.R0:
            kw['initial_recovereds'] = list(r.R0)
        if cfg.get('scalar'):
            kw = {k_: v[0] for k_, v in kw.items()}
        n0 = len(eng.log)
        if cfg.get('default_ic'):
            kw.pop('initial_infecteds')
            # bound: at most 2 rejected picks (the scheduler could otherwise pick a recovered node for ever)
            stub = r.sim.random
            state = {'n': 0}

            def script_choice(n, seq):
                if sorted(map(str, seq)) != sorted(map(str, r.nodes)):
                    return None
                state['n'] += 1
                if state['n'] > 2:
                    return [i for i, x in enumerate(seq) if x not in r.R0][0]
                return None
            stub.script_choice = script_choice
        res = h.call_must_succeed('no-exception', r.EoN.get_infected_nodes, r.G, r.tau, r.gamma, **kw)
        if cfg.get('default_ic') and res is not None:
            # the start node: whatever the selection scheme (rejection over all nodes, one choice over the eligible ones, ...), the
            # draws that select a NODE come first; the last of them is the start node and must not be initially recovered
            picks = []
            for e in eng.log[n0:]:
                if e[0] == 'choice' and all(x in r.nodes for x in e[1]):
                    picks.append(e)
                elif e[0] == 'sample' and all(x in r.nodes for x in e[1]) and e[2] == 1:
                    picks.append(('choice', e[1], e[3][0]))
                elif e[0] in ('random', 'expo', 'binomial'):
                    break
            if not picks:
                raise symx.Inconclusive('get_infected_nodes: the choice of the default start node could not be read from the draws')
            if picks[-1][1][picks[-1][2]] in r.R0:
                h.fail('default-start-node', {'picks': [str(e[1][e[2]]) for e in picks], 'recovered': [str(x) for x in r.R0]})
                return None
            h.require('default-start-node', True)
            r.I0 = [picks[-1][1][picks[-1][2]]]
    finally:
        r.sim.directed_percolate_network = real
    if res is None:
        return None
    H = captured.get('H')
    if H is None:
        h.fail('infected-nodes=out-component', {'why': 'directed_percolate_network not used'})
        return None
    H2 = H.copy()
    H2.remove_nodes_from(r.R0)
    want = set(r.I0)
    frontier = list(r.I0)
    while frontier:
        u = frontier.pop()
        for v in H2.successors(u):
            if v not in want:
                want.add(v)
                frontier.append(v)
    if set(res) == want:
        h.require('infected-nodes=out-component', True)
    else:
        h.fail('infected-nodes=out-component', {'got': sorted(str(x) for x in res), 'want': sorted(str(x) for x in want), 'H_edges': [str(e) for e in H.edges()]})
    return {'infected': sorted(str(x) for x in res)}


def run_queue(h, cfg):
    import EoN.simulation as sim
    eng = symx.ENG
    install_sim(RandomStub(), NPProxy())
    k = cfg['k']
    tmax = INF if cfg['tmax'] == 'inf' else eng.real('tmax')
    Q = sim.myQueue(tmax)
    times = [eng.real('t%d' % i) for i in range(k)]
    ran = []
    for i, t in enumerate(times):
        Q.add(t, lambda tt, j: ran.append((j, tt)), args=(i,))
    n = len(Q)
    while Q:
        Q.pop_and_run()
    idx = [j for j, _ in ran]
    # dropped exactly those at/after tmax
    for i, t in enumerate(times):
        h.require('queue-drops-at-tmax', LT(t, tmax) if i in idx else NOT(LT(t, tmax)), {'i': i, 'ran': idx})
    for (a, ta), (b, tb) in zip(ran, ran[1:]):
        h.require('queue-order', OR(LT(ta, tb), AND(EQ(ta, tb), a < b)), {'order': idx})
    for j, tt in ran:
        h.require('queue-passes-time', EQ(tt, times[j]), None)
    return {'order': idx}


def run_path(h, cfg):
    return {'fpp': run_fpp, 'perc': run_perc, 'dperc': run_dperc, 'infnodes': run_infnodes, 'queue': run_queue}[cfg['family']](h, cfg)

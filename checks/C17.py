"""C17 -- percolation-based probability/size estimators compute what they document."""
import itertools
import networkx as nx
from vlib import symx, graphs, simruns
from vlib.symx import INF, EQ, LE, LT, AND, OR, NOT, show
from vlib.stubs import RandomStub, NPProxy, install_sim

PROPERTY = 'C17'
EXPLANATION = ("(a) nonMarkov_directed_percolate_network with SYMBOLIC xi[u], zeta[v] and a threshold rule (and with an arbitrary "
               "engine-chosen boolean rule): z3 proves on every path that the result has the nodes of G and contains u->v exactly when "
               "the rule holds.  (b) estimate_SIR_prob_size_from_dir_perc on EVERY digraph of the bound (including edgeless graphs and "
               "several equally large strongly connected components): the result equals (|in-component|/N, |out-component|/N) of a "
               "largest SCC computed by an independent reference, and lies in [0,1].  (c) estimate_SIR_prob_size with symbolic p: for "
               "every outcome of the per-edge draws both outputs equal the largest-component fraction of the percolated graph.  (d) "
               "estimate_directed_SIR_prob_size / estimate_nonMarkov_SIR_prob_size(_with_timing): the percolated digraph handed to the "
               "estimator has the nodes of G and the rule's edges, and the output is the reference computation on it.  Parts (b)-(d) "
               "have no numeric unknowns beyond the draws: they are exhaustive engine-driven enumeration (stated in DESIGN section 8).")
BOUNDS = {'quick': 'all digraphs on <=3 nodes (up to isomorphism) for (b); G3 for (a),(c),(d)', 'thorough': 'all digraphs on <=4 nodes for (b); G3 + 4-node graphs otherwise'}
ASSUMPTIONS = ['floats as reals', 'networkx component algorithms trusted (the reference uses its own reachability closure)']
OPTS = {'quick': {'max_validate': 1, 'validate_every': 7}, 'thorough': {'max_validate': 1, 'validate_every': 97}}
MUST_EVALUATE = {'quick': ['perc-edge-iff-rule', 'perc-same-nodes', 'percolation-same-nodes', 'percolation-edge-iff-rule', 'PE-AR=reference', 'in-[0,1]', 'size=largest-component-fraction', 'estimator-uses-percolated-graph']}
VALIDATE = True


def functions():
    import EoN.simulation as s
    return [s.estimate_SIR_prob_size_from_dir_perc, s.estimate_SIR_prob_size, s.estimate_directed_SIR_prob_size, s.estimate_nonMarkov_SIR_prob_size,
            s.estimate_nonMarkov_SIR_prob_size_with_timing, s.nonMarkov_directed_percolate_network, s._out_component_, s._in_component_, s.percolate_network]


def configs(tier):
    out = []
    dg = list(itertools.chain(graphs.digraphs(1), graphs.digraphs(2), graphs.digraphs(3)))
    if tier == 'thorough':
        dg += list(graphs.digraphs(4))
    if tier == 'quick':
        dg += ['D:4:01,10,12,23,32', 'D:4:01,10,23,32', 'D:4:01,10,12,20,23', 'D:4:01,12,23,30,02']
    for g in dg:
        out.append(dict(family='dirperc', entry='estimate_SIR_prob_size_from_dir_perc', graph=g, tags=['dirperc']))
    ug = list(graphs.G3) + (['P4', 'C4', 'S3', 'paw'] if tier == 'thorough' else [])
    for g in ug:
        out.append(dict(family='builder', entry='nonMarkov_directed_percolate_network', graph=g, rule='threshold', tags=['builder', g]))
        if graphs.ALL[g][1]:
            out.append(dict(family='builder', entry='nonMarkov_directed_percolate_network', graph=g, rule='boolean', tags=['builder', g, 'boolean']))
            out.append(dict(family='builder', entry='nonMarkov_directed_percolate_network', graph=g, rule='stateful', tags=['builder', g, 'stateful-rule']))
            # xi / zeta as mappings that compute their values on demand (defaultdict, __missing__), as in the documentation's sample
            out.append(dict(family='builder', entry='nonMarkov_directed_percolate_network', graph=g, rule='threshold', mapping='on-demand',
                            tags=['builder', g, 'on-demand-mapping']))
        out.append(dict(family='size', entry='estimate_SIR_prob_size', graph=g, tags=['size', g]))
        for weights in (True, False):
            out.append(dict(family='timing-builder', entry='nonMarkov_directed_percolate_network_with_timing', graph=g, weights=weights,
                            tags=['timing-builder', g, 'weights' if weights else 'no-weights']))
        out.append(dict(family='timing-builder', entry='nonMarkov_directed_percolate_network_with_timing', graph=g, weights=True, fxn_args=True,
                        tags=['timing-builder', g, 'fxn-args']))
        for e in ('estimate_directed_SIR_prob_size', 'estimate_nonMarkov_SIR_prob_size', 'estimate_nonMarkov_SIR_prob_size_with_timing'):
            if e != 'estimate_nonMarkov_SIR_prob_size' and g == 'K3' and tier == 'quick':
                continue
            out.append(dict(family='est', entry=e, graph=g, tags=['est', e, g]))
            if e == 'estimate_nonMarkov_SIR_prob_size_with_timing' and g in ('K2', 'P3'):
                out.append(dict(family='est', entry=e, graph=g, fxn_args=True, tags=['est', e, g, 'fxn-args']))
    return out


def closure(H, src, forward=True):
    seen = {src}
    st = [src]
    while st:
        u = st.pop()
        for v in (H.successors(u) if forward else H.predecessors(u)):
            if v not in seen:
                seen.add(v)
                st.append(v)
    return seen


def reference_answers(H):
    nodes = list(H.nodes())
    N = len(nodes)
    sccs = []
    seen = set()
    for u in nodes:
        if u in seen:
            continue
        c = closure(H, u, True) & closure(H, u, False)
        sccs.append(c)
        seen |= c
    m = max(len(c) for c in sccs)
    ans = set()
    for c in sccs:
        if len(c) == m:
            u = next(iter(c))
            ans.add((len(closure(H, u, False)) / N, len(closure(H, u, True)) / N))
    return ans


def check_answer(h, H, res):
    ans = reference_answers(H)
    try:
        PE, AR = res
    except Exception:
        h.fail('PE-AR=reference', {'got': repr(res)[:100]})
        return
    if any(abs(PE - a) < 1e-12 and abs(AR - b) < 1e-12 for (a, b) in ans):
        h.require('PE-AR=reference', True)
    else:
        h.fail('PE-AR=reference', {'got': [PE, AR], 'reference_any_of': sorted(ans), 'edges': [str(e) for e in H.edges()]})
    if 0 <= PE <= 1 and 0 <= AR <= 1:
        h.require('in-[0,1]', True)
    else:
        h.fail('in-[0,1]', {'got': [PE, AR]})


def run_path(h, cfg):
    eng = symx.ENG
    import EoN
    import EoN.simulation as sim
    fam = cfg['family']
    if fam == 'dirperc':
        install_sim(RandomStub(), NPProxy())
        H = graphs.make(cfg['graph'], directed=True)
        res = h.call_must_succeed('no-exception', EoN.estimate_SIR_prob_size_from_dir_perc, H)
        if res is None:
            return None
        check_answer(h, H, res)
        return {'res': [float(x) for x in res]}
    if fam == 'timing-builder':
        from checks import C11
        return C11.run_perc(h, cfg)
    r = simruns.setup(dict(cfg, I0=[], R0=[]))
    if fam == 'builder':
        xi, zeta, table = {}, {}, {}
        for u in r.G.nodes():
            xi[u] = eng.real('xi_%s' % (u,))
            zeta[u] = eng.real('zeta_%s' % (u,))
        if cfg['rule'] == 'threshold':
            transmission = lambda x, z: x > z
        elif cfg['rule'] == 'stateful':
            # a random / stateful rule and nodes that share their xi and zeta values: the rule is asked once per ordered pair of
            # neighbours, and each answer decides one edge
            answers = []
            xi = {u: 'same-xi' for u in r.G.nodes()}
            zeta = {u: 'same-zeta' for u in r.G.nodes()}

            def transmission(x, z):
                answers.append(bool(eng.choose(2, 'rule')))
                return answers[-1]
        else:
            for u in r.G.nodes():
                for v in r.G.neighbors(u):
                    table[(u, v)] = bool(eng.choose(2, 'rule'))
            # the rule sees only (xi[u], zeta[v]); make them identify the pair
            xi = {u: ('xi', u) for u in r.G.nodes()}
            zeta = {u: ('zeta', u) for u in r.G.nodes()}
            transmission = lambda x, z: table[(x[1], z[1])]
        xi_arg, zeta_arg = xi, zeta
        if cfg.get('mapping') == 'on-demand':
            class OnDemand(dict):
                def __init__(self, src):
                    dict.__init__(self)
                    self.src = src

                def __missing__(self, k):
                    self[k] = self.src[k]
                    return self[k]
            xi_arg, zeta_arg = OnDemand(xi), OnDemand(zeta)
        H = h.call_must_succeed('no-exception', EoN.nonMarkov_directed_percolate_network, r.G, xi_arg, zeta_arg, transmission)
        if H is None:
            return None
        if cfg['rule'] == 'stateful':
            pairs = sum(1 for u in r.G.nodes() for v in r.G.neighbors(u))
            if len(answers) != pairs or H.number_of_edges() != sum(answers) or set(H.nodes()) != set(r.G.nodes()):
                h.fail('perc-edge-iff-rule', {'rule_consulted': len(answers), 'ordered_neighbour_pairs': pairs, 'edges': H.number_of_edges(), 'true_answers': sum(answers)})
            else:
                h.require('perc-edge-iff-rule', True)
                h.require('perc-same-nodes', True)
            return {'edges': sorted(str(e) for e in H.edges())}
        builder_obligations(h, r, H, xi, zeta, table, cfg['rule'])
        return {'edges': sorted(str(e) for e in H.edges())}
    if fam == 'size':
        p = eng.real('p', lo=0, hi=1)
        real = sim.percolate_network
        cap = {}

        def wrapped(G, pp):
            H = real(G, pp)
            cap['H'] = H.copy()
            return H
        sim.percolate_network = wrapped
        try:
            res = h.call_must_succeed('no-exception', EoN.estimate_SIR_prob_size, r.G, p)
        finally:
            sim.percolate_network = real
        if res is None:
            return None
        H = cap.get('H')
        if H is None:
            h.fail('estimator-uses-percolated-graph', {})
            return None
        h.require('estimator-uses-percolated-graph', True)
        comp = []
        seen = set()
        for u in H.nodes():
            if u in seen:
                continue
            c = {u}
            st = [u]
            while st:
                x = st.pop()
                for y in H.neighbors(x):
                    if y not in c:
                        c.add(y)
                        st.append(y)
            seen |= c
            comp.append(len(c))
        want = max(comp) / r.N
        try:
            a, b = res
            ok = abs(a - want) < 1e-12 and abs(b - want) < 1e-12
        except Exception:
            ok = False
        if ok:
            h.require('size=largest-component-fraction', True)
        else:
            h.fail('size=largest-component-fraction', {'got': repr(res)[:80], 'want': want})
        return {'res': [float(x) for x in res]}
    # estimators over percolated digraphs
    entry = cfg['entry']
    cap = {}
    real_from = sim.estimate_SIR_prob_size_from_dir_perc

    def capture(H):
        cap['H'] = H.copy()
        return real_from(H)
    sim.estimate_SIR_prob_size_from_dir_perc = capture
    try:
        if entry == 'estimate_directed_SIR_prob_size':
            res = h.call_must_succeed('no-exception', EoN.estimate_directed_SIR_prob_size, r.G, r.tau, r.gamma)
        elif entry == 'estimate_nonMarkov_SIR_prob_size':
            xi = {u: eng.real('xi_%s' % (u,)) for u in r.G.nodes()}
            zeta = {u: eng.real('zeta_%s' % (u,)) for u in r.G.nodes()}
            res = h.call_must_succeed('no-exception', EoN.estimate_nonMarkov_SIR_prob_size, r.G, xi, zeta, lambda x, z: x > z)
        else:
            dur = {u: eng.real('D_%s' % (u,), lo=0) for u in r.G.nodes()}
            dl = {(u, v): eng.real('d_%s_%s' % (u, v), lo=0) for u in r.G.nodes() for v in r.G.neighbors(u)}
            tf, rf, extra = (lambda u, v: dl[(u, v)]), (lambda u: dur[u]), {}
            if cfg.get('fxn_args'):
                tf = simruns.expecting(tf, 2, simruns.TRANS_ARGS, 'trans_time_fxn')
                rf = simruns.expecting(rf, 1, simruns.REC_ARGS, 'rec_time_fxn')
                extra = dict(trans_time_args=simruns.TRANS_ARGS, rec_time_args=simruns.REC_ARGS)
            res = h.call_must_succeed('no-exception', EoN.estimate_nonMarkov_SIR_prob_size_with_timing, r.G, tf, rf, **extra)
    finally:
        sim.estimate_SIR_prob_size_from_dir_perc = real_from
    if res is None:
        return None
    H = cap.get('H')
    if H is None:
        h.fail('estimator-uses-percolated-graph', {})
        return None
    h.require('estimator-uses-percolated-graph', True)
    if set(H.nodes()) != set(r.G.nodes()) or any(not r.G.has_edge(a, b) for a, b in H.edges()):
        h.fail('perc-same-nodes', {'nodes': [str(x) for x in H.nodes()]})
    else:
        h.require('perc-same-nodes', True)
    if entry == 'estimate_nonMarkov_SIR_prob_size':
        builder_obligations(h, r, H, xi, zeta, {}, 'threshold')
    elif entry == 'estimate_nonMarkov_SIR_prob_size_with_timing':
        for u in r.G.nodes():
            for v in r.G.neighbors(u):
                rule = LE(dl[(u, v)], dur[u])
                h.require('perc-edge-iff-rule', rule if H.has_edge(u, v) else NOT(rule), {'edge': '%s->%s' % (u, v)})
    check_answer(h, H, res)
    return {'res': [float(x) for x in res]}


def builder_obligations(h, r, H, xi, zeta, table, rule):
    if not isinstance(H, nx.DiGraph) or set(H.nodes()) != set(r.G.nodes()):
        h.fail('perc-same-nodes', {'nodes': [str(x) for x in H.nodes()]})
        return
    h.require('perc-same-nodes', True)
    if any(not r.G.has_edge(a, b) for a, b in H.edges()):
        h.fail('perc-edge-iff-rule', {'edges_not_in_G': [str(e) for e in H.edges() if not r.G.has_edge(*e)]})
    for u in r.G.nodes():
        for v in r.G.neighbors(u):
            present = H.has_edge(u, v)
            if rule == 'threshold':
                c = LT(zeta[v], xi[u])
                h.require('perc-edge-iff-rule', c if present else NOT(c), {'edge': '%s->%s' % (u, v), 'present': present})
            else:
                if present == table[(u, v)]:
                    h.require('perc-edge-iff-rule', True)
                else:
                    h.fail('perc-edge-iff-rule', {'edge': '%s->%s' % (u, v), 'present': present, 'rule': table[(u, v)]})

"""C07 -- equivalent ODE models agree: SIR hierarchy and regular-graph reductions."""
import inspect
from fractions import Fraction as Fr
import numpy as np
import networkx as nx
import z3
from vlib import symx, graphs, odex, taylor
from vlib.taylor import Poly, Series, S as TS, lift0
from vlib.symx import Sym, lift, show

PROPERTY = 'C07'
EXPLANATION = ("Two solver-decided lines.  (1) Map-free Taylor agreement through the PUBLIC entry points: every model of a group is run, "
               "unmodified, on truncated power series in t whose coefficients are exact polynomials in the symbolic tau and gamma "
               "(the integrator is replaced by Picard iteration through the model's real right-hand side, starting from the wrapper's "
               "own initial vector; the wrapper's own tail reconstructs S, I, R); z3 decides, coefficient by coefficient, that the S, "
               "I, R series of all members of a group coincide to order m for ALL (tau, gamma).  Groups: {EBCM, SIR compact pairwise, "
               "SIR super-compact pairwise, SIR effective degree, SIR compact effective degree} on arbitrary degree sequences with "
               "random initial infection; EBCM_pref_mix (continuous and discrete, the latter with symbolic p by direct iteration) vs "
               "EBCM / EBCM_discrete under uncorrelated mixing; on regular graphs {heterogeneous, compact, node-level pair-based, "
               "homogeneous pairwise} and {heterogeneous mean-field, individual-based, homogeneous mean-field}, SIS and SIR.  (2) "
               "Vector-field conjugacy EBCM -> SIR compact pairwise with EVERYTHING symbolic (P_k for k<=K, rho, tau, gamma, N, the "
               "whole state): with the state map phi from the book, z3 proves D phi . f_EBCM = f_CP o phi for all states (denominators "
               "cleared), which by L5 gives equality for all t.")
BOUNDS = {'quick': 'Taylor order m = 6; graphs irr5, paw, S3 (hierarchy), C4, K4, K33 (regular); rho in {1/5, 1/2}; conjugacy K = 3',
          'thorough': 'm = 10; adds T5, P4, cube (3-regular, 8 nodes; pair-based excluded for size), C5; rho also 1/3; conjugacy K = 4'}
ASSUMPTIONS = ['floats as reals (rational constants recovered exactly from the floats EoN computes, denominators <= 10^12)', 'L5: Taylor coefficients of an analytic flow are determined by Picard iteration; equality for all t is claimed only for the conjugacy line',
               'rho and the degree sequence are enumerated in the Taylor line (series division needs a constant leading coefficient)']
OPTS = {'quick': {'max_validate': 0, 'cfg_timeout': 250}, 'thorough': {'max_validate': 0, 'cfg_timeout': 1500}}
VALIDATE = False
MUST_EVALUATE = {'quick': ['group-agrees', 'conjugacy', 'prefmix-discrete-agrees', 'integrator-starts-at-tmin']}

HIER = ['EBCM_from_graph', 'SIR_compact_pairwise_from_graph', 'SIR_super_compact_pairwise_from_graph', 'SIR_effective_degree_from_graph',
        'SIR_compact_effective_degree_from_graph']
REG_PAIR = {'SIR': ['SIR_homogeneous_pairwise_from_graph', 'SIR_heterogeneous_pairwise_from_graph', 'SIR_compact_pairwise_from_graph', 'SIR_pair_based'],
            'SIS': ['SIS_homogeneous_pairwise_from_graph', 'SIS_heterogeneous_pairwise_from_graph', 'SIS_compact_pairwise_from_graph', 'SIS_pair_based']}
REG_MF = {'SIR': ['SIR_homogeneous_meanfield_from_graph', 'SIR_heterogeneous_meanfield_from_graph', 'SIR_individual_based'],
          'SIS': ['SIS_homogeneous_meanfield_from_graph', 'SIS_heterogeneous_meanfield_from_graph', 'SIS_individual_based']}


def functions():
    import EoN.analytic as an
    names = set(HIER + sum(REG_PAIR.values(), []) + sum(REG_MF.values(), []) + ['EBCM_pref_mix_from_graph', 'EBCM_pref_mix', 'EBCM', 'EBCM_discrete',
                                                                                 'EBCM_pref_mix_discrete'])
    return [getattr(an, n) for n in names] + [getattr(an, n) for n in dir(an) if n.startswith('_d')]


def configs(tier):
    out = []
    m = 6 if tier == 'quick' else 10
    rhos = ['1/5', '1/2'] + (['1/3'] if tier == 'thorough' else [])
    for g in ['irr5', 'paw', 'S3', 'paw+K1'] + (['T5', 'P4', 'K2+K1'] if tier == 'thorough' else []):     # incl. graphs with isolated nodes (degree class 0)
        for rho in rhos:
            out.append(dict(family='group', entry='SIR hierarchy', group='hierarchy', members=HIER, graph=g, rho=rho, order=m, tags=['hierarchy', g, rho]))
    for g in ['C4', 'K4', 'K33'] + (['cube', 'C5'] if tier == 'thorough' else []):
        for rho in rhos[:2]:
            for kind in ('SIR', 'SIS'):
                mem = list(REG_PAIR[kind])
                if graphs.ALL[g][0] > 6:
                    mem = [x for x in mem if 'pair_based' not in x]
                out.append(dict(family='group', group='regular-pairwise-' + kind, members=mem, graph=g, rho=rho, order=min(m, 6) if graphs.ALL[g][0] > 4 else m,
                                tags=['regular-pairwise', kind, g, rho]))
                out.append(dict(family='group', group='regular-meanfield-' + kind, members=REG_MF[kind], graph=g, rho=rho, order=m, tags=['regular-meanfield', kind, g, rho]))
                if g == 'C4' and rho == rhos[0]:
                    # a start time other than 0 (the models are autonomous: same series in the elapsed time)
                    out.append(dict(family='group', group='regular-pairwise-' + kind, members=mem, graph=g, rho=rho, order=min(m, 6), tmin=2,
                                    tags=['regular-pairwise', kind, g, rho, 'tmin2']))
                    out.append(dict(family='group', group='regular-meanfield-' + kind, members=REG_MF[kind], graph=g, rho=rho, order=min(m, 6), tmin=2,
                                    tags=['regular-meanfield', kind, g, rho, 'tmin2']))
    for g in ['C4', 'K4', 'K33']:
        out.append(dict(family='group', group='prefmix-regular', members=['EBCM_from_graph', 'EBCM_pref_mix_from_graph'], graph=g, rho='1/5', order=m, tags=['prefmix', g]))
    for pk in ({1: '1/2', 3: '1/2'}, {1: '1/4', 2: '1/2', 4: '1/4'}):
        out.append(dict(family='prefmix', Pk=pk, rho='1/5', order=m, tags=['prefmix-uncorrelated']))
        out.append(dict(family='prefmix-discrete', Pk=pk, rho='1/5', steps=3, tags=['prefmix-discrete']))
    for K in ((3,) if tier == 'quick' else (3, 4)):
        out.append(dict(family='conjugacy', entry='_dEBCM_ -> _dSIR_compact_pairwise_', K=K, tags=['conjugacy', 'K%d' % K]))
    return out


def run_model(an, EoN, name, G, tau, gamma, rho, tmin=0):
    f = getattr(EoN, name)
    kw = dict(tmin=tmin, tmax=tmin + 1, tcount=2)
    if name in ('SIR_pair_based', 'SIS_pair_based', 'SIR_individual_based', 'SIS_individual_based'):
        kw['rho'] = rho
        r = f(G, tau, gamma, **kw)
    else:
        r = f(G, tau, gamma, rho=rho, **kw)
    return [taylor.series_of(x) for x in r[1:]]


def run_path(h, cfg):
    import EoN
    import EoN.analytic as an
    fam = cfg['family']
    if fam == 'conjugacy':
        return run_conjugacy(h, cfg)
    taylor.set_vars(['tau', 'gamma', 'p'])
    taylor.set_order(cfg.get('order', 6))
    flow = taylor.install(an)
    try:
        tau, gamma = Poly.var('tau'), Poly.var('gamma')
        rho = Fr(cfg['rho'])
        prover = taylor.CoeffProver([z3.Real('tau') > 0, z3.Real('gamma') > 0])
        if fam == 'group':
            G = graphs.make(cfg['graph'])
            res = {}
            t0 = cfg.get('tmin', 0)
            for name in cfg['members']:
                n_before = len(flow.starts)
                st, v = h.call(run_model, an, EoN, name, G, tau, gamma, rho, t0)
                if st == 'exc':
                    h.fail('model-runs:' + type(v).__name__, {'model': name, 'exception': repr(v)[:300]})
                    return None
                res[name] = v
                # the series are in the time elapsed since the start of the integration: comparable only if every model starts at tmin
                bad = [x for x in flow.starts[n_before:] if x != t0]
                if bad or len(flow.starts) == n_before:
                    h.fail('integrator-starts-at-tmin', {'model': name, 'started_at': [repr(x) for x in flow.starts[n_before:]], 'tmin': t0})
                    return None
                h.require('integrator-starts-at-tmin', True)
            base = cfg['members'][0]
            ok = True
            for name in cfg['members'][1:]:
                for ci, c in enumerate('SIR'[:len(res[base])]):
                    d = prover.first_difference(res[name][ci], res[base][ci])
                    if d is not None:
                        ok = False
                        k, m, a, b = d
                        h.record_failure('group-agrees', {'group': cfg['group'], 'model': name, 'reference': base, 'series': c, 'first_differing_order': k,
                                                         'coefficient': repr(a)[:200], 'reference_coefficient': repr(b)[:200]}, odex.model_values(m))
                        break
                if not ok:
                    break
            if ok:
                h.require('group-agrees', True)
            return None
        if fam == 'prefmix':
            Pk = {int(k): Fr(v) for k, v in cfg['Pk'].items()}
            kave = sum(k * v for k, v in Pk.items())
            Pnk = {k1: {k2: k2 * Pk[k2] / kave for k2 in Pk} for k1 in Pk}
            N = 100
            r1 = an.EBCM_pref_mix(N, Pk, Pnk, tau, gamma, rho=rho, tmin=0, tmax=1, tcount=2)
            psihat = lambda x: (1 - rho) * sum(Pk[k] * x ** k for k in Pk)
            psihatP = lambda x: (1 - rho) * sum(k * Pk[k] * x ** (k - 1) for k in Pk)
            r2 = an.EBCM(N, psihat, psihatP, tau, gamma, 1 - rho, tmin=0, tmax=1, tcount=2)
            ok = True
            for ci, c in enumerate('SIR'):
                d = prover.first_difference(taylor.series_of(r1[1 + ci]), taylor.series_of(r2[1 + ci]))
                if d is not None:
                    ok = False
                    h.record_failure('group-agrees', {'group': 'prefmix-uncorrelated', 'series': c, 'first_differing_order': d[0], 'pref_mix': repr(d[2])[:200], 'EBCM': repr(d[3])[:200]},
                                     odex.model_values(d[1]))
                    break
            if ok:
                h.require('group-agrees', True)
            return None
        if fam == 'prefmix-discrete':
            Pk = {int(k): Fr(v) for k, v in cfg['Pk'].items()}
            kave = sum(k * v for k, v in Pk.items())
            Pnk = {k1: {k2: k2 * Pk[k2] / kave for k2 in Pk} for k1 in Pk}
            N = 100
            p = Poly.var('p')
            steps = cfg['steps']
            r1 = an.EBCM_pref_mix_discrete(N, Pk, Pnk, p, rho=rho, tmin=0, tmax=steps)
            psihat = lambda x: (1 - rho) * sum(Pk[k] * x ** k for k in Pk)
            psihatP = lambda x: (1 - rho) * sum(k * Pk[k] * x ** (k - 1) for k in Pk)
            r2 = an.EBCM_discrete(N, psihat, psihatP, p, 1 - rho, tmin=0, tmax=steps)
            pv = taylor.CoeffProver([z3.Real('p') >= 0, z3.Real('p') <= 1])
            ok = True
            for ci, c in enumerate('SIR'):
                A, B = list(r1[1 + ci]), list(r2[1 + ci])
                if len(A) != len(B):
                    ok = False
                    h.fail('prefmix-discrete-agrees', {'series': c, 'lengths': [len(A), len(B)]})
                    break
                for t_, (a, b) in enumerate(zip(A, B)):
                    d = pv.first_difference(TS(taylor.P(a) if not isinstance(a, Poly) else a), TS(taylor.P(b) if not isinstance(b, Poly) else b))
                    if d is not None:
                        ok = False
                        h.record_failure('prefmix-discrete-agrees', {'series': c, 'step': t_, 'pref_mix': repr(d[2])[:200], 'EBCM_discrete': repr(d[3])[:200]}, odex.model_values(d[1]))
                        break
                if not ok:
                    break
            if ok:
                h.require('prefmix-discrete-agrees', True)
            return None
    finally:
        taylor.uninstall(an)


def run_conjugacy(h, cfg):
    """D phi . f_EBCM = f_CP o phi with everything symbolic (K = max degree)"""
    import EoN.analytic as an
    eng = symx.ENG
    eng.div_guard = False
    odex.install(an, odex.FlowStub())
    try:
        K = cfg['K']
        N, tau, gamma, rho, theta, R = [eng.real(n_, lo=0, lo_strict=True) for n_ in 'N tau gamma rho theta R'.split()]
        Pk = {k: eng.real('P%d' % k, lo=0, lo_strict=True) for k in range(1, K + 1)}
        psihat = lambda x: (1 - rho) * sum(Pk[k] * x ** k for k in Pk)
        psihatP = lambda x: (1 - rho) * sum(k * Pk[k] * x ** (k - 1) for k in Pk)
        phiS0, phiR0 = 1 - rho, 0
        fA = an._dEBCM_(np.array([theta, R], dtype=object), 0, N, tau, gamma, psihat, psihatP, phiS0, phiR0)
        dtheta, dR = fA

        def phi(th, r):
            Sk = [0] + [N * (1 - rho) * Pk[k] * th ** k for k in range(1, K + 1)]
            phiS = phiS0 * psihatP(th) / psihatP(1)
            phiR = (gamma / tau) * (1 - th) + phiR0
            phiI = th - phiS - phiR
            SS = N * psihatP(th) * phiS
            SI = N * psihatP(th) * phiI
            return Sk + [SS, SI, r]
        x = phi(theta, R)
        fB = an._dSIR_compact_pairwise_(np.array(x, dtype=object), 0, N, tau, gamma)
        prover = odex.IdProver(list(eng.pc))
        ok = True
        for j, (xj, fj) in enumerate(zip(x, list(fB))):
            e = z3.simplify(lift(xj)) if isinstance(xj, Sym) else z3.RealVal(xj)
            expected = odex.zdiff(e, lift(theta)) * lift(dtheta) + odex.zdiff(e, lift(R)) * lift(dR)
            good, m = prover.equal(expected, fj if isinstance(fj, Sym) else Sym(lift(fj)))
            if not good:
                ok = False
                h.record_failure('conjugacy', {'component': j, 'Dphi.f_EBCM': str(z3.simplify(expected))[:200], 'f_CP(phi)': show(fj)[:200]}, odex.model_values(m))
                break
        # initial states correspond: phi(1, 0) is the compact-pairwise initial vector built by its wrapper for rho
        if ok:
            h.require('conjugacy', True)
        return None
    finally:
        eng.div_guard = True
        odex.uninstall(an)


def _num(values, k, default):
    try:
        return float(Fr(str((values or {}).get(k))))
    except Exception:
        return default


def replay_concrete(cfg, kind, values, decisions):
    """numeric replay with the real integrator at the counterexample's tau, gamma"""
    import EoN
    import EoN.analytic as an
    taylor.uninstall(an)
    odex.uninstall(an)
    tau, gamma = _num(values, 'tau', 1.3), _num(values, 'gamma', 0.8)
    if cfg['family'] == 'group':
        G = graphs.make(cfg['graph'])
        rho = float(Fr(cfg['rho']))
        outs = {}
        t0 = float(cfg.get('tmin', 0))
        for name in cfg['members']:
            f = getattr(EoN, name)
            try:
                r = f(G, tau, gamma, rho=rho, tmin=t0, tmax=t0 + 4, tcount=9)
            except Exception as e:
                return {'reproduced': kind.startswith('model-runs'), 'concrete_detail': {'model': name, 'exception': repr(e)[:200]}}
            outs[name] = [np.asarray(x, dtype=float) for x in r[1:4]]
        base = cfg['members'][0]
        worst, who = 0.0, None
        for name in cfg['members'][1:]:
            for a, b in zip(outs[name], outs[base]):
                d = float(np.nanmax(np.abs(a - b)))
                if d > worst:
                    worst, who = d, name
        return {'reproduced': worst > 2e-5, 'concrete_detail': {'max_abs_difference': worst, 'model': who, 'tau': tau, 'gamma': gamma}, 'how': 'real code, real integrator'}
    if cfg['family'] == 'prefmix':
        Pk = {int(k): float(Fr(v)) for k, v in cfg['Pk'].items()}
        rho = float(Fr(cfg['rho']))
        kave = sum(k * v for k, v in Pk.items())
        Pnk = {k1: {k2: k2 * Pk[k2] / kave for k2 in Pk} for k1 in Pk}
        r1 = an.EBCM_pref_mix(100, Pk, Pnk, tau, gamma, rho=rho, tmin=0, tmax=4, tcount=9)
        psihat = lambda x: (1 - rho) * sum(Pk[k] * x ** k for k in Pk)
        psihatP = lambda x: (1 - rho) * sum(k * Pk[k] * x ** (k - 1) for k in Pk)
        r2 = an.EBCM(100, psihat, psihatP, tau, gamma, 1 - rho, tmin=0, tmax=4, tcount=9)
        worst = max(float(np.max(np.abs(np.asarray(a, dtype=float) - np.asarray(b, dtype=float)))) for a, b in zip(r1[1:4], r2[1:4]))
        return {'reproduced': worst > 1e-2, 'concrete_detail': {'max_abs_difference': worst}}
    if cfg['family'] == 'prefmix-discrete':
        Pk = {int(k): float(Fr(v)) for k, v in cfg['Pk'].items()}
        rho = float(Fr(cfg['rho']))
        p = _num(values, 'p', 0.4)
        kave = sum(k * v for k, v in Pk.items())
        Pnk = {k1: {k2: k2 * Pk[k2] / kave for k2 in Pk} for k1 in Pk}
        r1 = an.EBCM_pref_mix_discrete(100, Pk, Pnk, p, rho=rho, tmin=0, tmax=cfg['steps'])
        psihat = lambda x: (1 - rho) * sum(Pk[k] * x ** k for k in Pk)
        psihatP = lambda x: (1 - rho) * sum(k * Pk[k] * x ** (k - 1) for k in Pk)
        r2 = an.EBCM_discrete(100, psihat, psihatP, p, 1 - rho, tmin=0, tmax=cfg['steps'])
        worst = max(float(np.max(np.abs(np.asarray(a, dtype=float) - np.asarray(b, dtype=float)))) for a, b in zip(r1[1:4], r2[1:4]))
        return {'reproduced': worst > 1e-6, 'concrete_detail': {'max_abs_difference': worst, 'p': p}}
    # conjugacy: evaluate both sides numerically at the counterexample
    K = cfg['K']
    v = {k: _num(values, k, d) for k, d in (('N', 100.0), ('tau', 1.3), ('gamma', 0.8), ('rho', 0.2), ('theta', 0.7), ('R', 5.0))}
    Pk = {k: _num(values, 'P%d' % k, 1.0 / K) for k in range(1, K + 1)}
    rho, N = v['rho'], v['N']
    psihat = lambda x: (1 - rho) * sum(Pk[k] * x ** k for k in Pk)
    psihatP = lambda x: (1 - rho) * sum(k * Pk[k] * x ** (k - 1) for k in Pk)

    def phi(th, r):
        Sk = [0] + [N * (1 - rho) * Pk[k] * th ** k for k in range(1, K + 1)]
        phiS = (1 - rho) * psihatP(th) / psihatP(1)
        phiR = (v['gamma'] / v['tau']) * (1 - th)
        phiI = th - phiS - phiR
        return np.array(Sk + [N * psihatP(th) * phiS, N * psihatP(th) * phiI, r], dtype=float)
    fA = an._dEBCM_(np.array([v['theta'], v['R']]), 0, N, v['tau'], v['gamma'], psihat, psihatP, 1 - rho, 0)
    eps = 1e-6
    x0 = phi(v['theta'], v['R'])
    x1 = phi(v['theta'] + eps * fA[0], v['R'] + eps * fA[1])
    lhs = (x1 - x0) / eps
    rhs = np.asarray(an._dSIR_compact_pairwise_(x0, 0, N, v['tau'], v['gamma']), dtype=float)
    worst = float(np.max(np.abs(lhs - rhs) / (1 + np.abs(rhs))))
    return {'reproduced': worst > 1e-3, 'concrete_detail': {'max_relative_difference': worst}}

"""C16 -- weighted selection stays proportional to weight after any history (inductive step on _ListDict_)."""
import z3
from vlib import symx
from vlib.symx import Sym, EQ, LE, LT, AND, OR, NOT, IMPL, show, lift
from vlib.stubs import RandomStub, install_sim

PROPERTY = 'C16'
EXPLANATION = ("Inductive step, decided by z3 on the real _ListDict_ methods: the pre-state is an ARBITRARY weighted "
               "candidate set satisfying the representation invariant Inv (positions consistent; weight table covers the "
               "items; max_weight >= every weight; _total_weight = sum of weights; weights >= 0) with symbolic weights, "
               "symbolic max_weight and an arbitrary max_weight_count; one arbitrary operation (insert new / replace "
               "existing incl. weight 0 / non-negative increment of new or existing / remove) with a symbolic argument is "
               "executed symbolically; z3 proves Inv afterwards on every path (hence after every history, by induction "
               "from the empty set, whose Inv is checked too).  Then choose_random is run on the post-state with symbolic "
               "draws: z3 proves the acceptance test is exactly u < w_i/max_weight with 0 <= w_i/max_weight <= 1, that a "
               "zero-weight candidate is never returned, that the proposal is uniform over the current items and that "
               "total_weight() equals the sum of current weights.  By the rejection-sampling lemma (L3) selection is then "
               "proportional to weight.")
BOUNDS = {'quick': 'pre-states with k <= 3 items; one operation; <= 2 rejections in choose_random',
          'thorough': 'pre-states with k <= 4 items; sequences of two operations; <= 3 rejections'}
ASSUMPTIONS = ['floats as reals (the "to rounding" clause of the property is outside the claim)',
               'L3: rejection sampling with uniform proposal and acceptance probability a_i selects i with probability a_i / sum a_j',
               'precondition for selection: at least one candidate has positive weight',
               'Inv deliberately does not constrain max_weight_count (a stale-high maximum only costs speed)',
               'increments are >= 0 as in the property statement (negative increments are outside it)']
OPS = ['insert_new', 'insert_existing', 'update_new', 'update_existing', 'remove', 'recompute_total', 'none']
MUST_EVALUATE = {'quick': ['inv:no-stale-weight', 'inv:max>=weights', 'inv:total=sum', 'inv:positions', 'accept-threshold', 'accept-prob-in-[0,1]',
                           'zero-weight-never-selected', 'total_weight()=sum', 'proposal-uniform-over-items',
                           'empty-set-total-is-zero', 'nonempty-total-positive', 'total-within-rounding-of-sum',
                           'random_removal-removes-the-selected', 'unweighted-uniform-over-items', 'unweighted-total=count']}
OPTS = {'quick': {'max_validate': 4, 'validate_every': 5}, 'thorough': {'max_validate': 4, 'validate_every': 50, 'cfg_timeout': 1500}}


def functions():
    import EoN.simulation as s
    L = s._ListDict_
    return [L.__init__, L.insert, L.update, L.remove, L.choose_random, L.random_removal, L.total_weight, L._update_max_weight,
            L.__contains__, L.__len__, L.update_total_weight]


def configs(tier):
    out = []
    kmax = 3 if tier == 'quick' else 4
    for k in range(0, kmax + 1):
        for op in OPS:
            if op in ('insert_existing', 'update_existing', 'remove') and k == 0:
                continue
            targets = range(k) if op in ('insert_existing', 'update_existing', 'remove') else [None]
            for tgt in targets:
                for cnt in (-1, 0, 1, 2):
                    if tier == 'quick' and k == 3 and cnt in (-1, 2) and op not in ('remove', 'insert_existing'):
                        continue
                    if k == 4 and cnt in (-1, 2) and op not in ('remove',):
                        continue
                    ops2 = [None]
                    if tier == 'thorough' and k <= 2:
                        ops2 = [None, 'insert_new', 'remove0', 'update0']
                    for op2 in ops2:
                        out.append(dict(entry='_ListDict_', k=k, op=op, target=tgt, count=cnt, op2=op2,
                                        R=2 if (tier == 'quick' or k == 4) else 3, tags=[op, 'k%d' % k]))
    out += float_configs(tier)
    # selection followed by removal (Gillespie_SIR/SIS: infecteds.random_removal()), and the unweighted variant of the set
    for k in range(1, kmax + 1):
        for cnt in (0, 1, 2):
            out.append(dict(entry='_ListDict_', k=k, op='none', target=None, count=cnt, op2=None, R=2, select='random_removal', tags=['random_removal', 'k%d' % k]))
        for op in ('insert_new', 'remove', 'none'):
            for tgt in (range(k) if op == 'remove' else [None]):
                out.append(dict(entry='_ListDict_', family='unweighted', k=k, op=op, target=tgt, tags=['unweighted', op, 'k%d' % k]))
    # long rejection runs: the proposal is scripted to the light candidate T times (its acceptance test is forced to fail by an
    # assumption on the draw, so the run is ONE path), then to the heaviest one
    for T in ((150,) if tier == 'quick' else (150, 400)):
        for k in (2, 3):
            out.append(dict(entry='_ListDict_', k=k, op='none', target=None, count=1, op2=None, R=T + 5, long_run=T, tags=['long-rejection-run', 'k%d' % k]))
    return out


# ---- rounding: the candidate set on IEEE doubles ----------------------------------------------------------------------------
# histories: ('ins', item, weight symbol) = insert / replace, ('upd', item, symbol) = non-negative increment, ('rem', item)
FLOAT_HISTORIES = {
    'ins2-rem-fifo': [('ins', 0, 0), ('ins', 1, 1), ('rem', 0), ('rem', 1)],
    'ins2-rem-lifo': [('ins', 0, 0), ('ins', 1, 1), ('rem', 1), ('rem', 0)],
    'ins2-zero-weight-removal': [('ins', 0, 0), ('ins', 1, 1), ('ins0', 0), ('ins0', 1)],      # insert(item, 0) removes, as the simulators do
    'upd2-rem': [('upd', 0, 0), ('upd', 1, 1), ('rem', 0), ('rem', 1)],
    'upd-twice-rem': [('upd', 0, 0), ('upd', 0, 1), ('rem', 0)],
    'replace-rem': [('ins', 0, 0), ('ins', 1, 1), ('ins', 0, 2), ('rem', 1), ('rem', 0)],
    'ins3-rem': [('ins', 0, 0), ('ins', 1, 1), ('ins', 2, 2), ('rem', 0), ('rem', 1), ('rem', 2)],
    'ins3-rem-rev': [('ins', 0, 0), ('ins', 1, 1), ('ins', 2, 2), ('rem', 2), ('rem', 1), ('rem', 0)],
    'ins-rem-ins-rem': [('ins', 0, 0), ('ins', 1, 1), ('rem', 0), ('ins', 2, 2), ('rem', 1), ('rem', 2)],
}


def float_configs(tier):
    out = []
    bits = ['ins2-rem-fifo', 'ins2-rem-lifo', 'ins2-zero-weight-removal', 'upd2-rem']
    if tier == 'thorough':
        bits += ['upd-twice-rem', 'replace-rem', 'ins3-rem', 'ins-rem-ins-rem']
    for name in bits:
        out.append(dict(entry='_ListDict_', family='float-bits', history=name, tags=['float-bits', name]))
    for name in FLOAT_HISTORIES:
        if tier == 'quick' and name in ('ins3-rem-rev',):
            continue
        out.append(dict(entry='_ListDict_', family='float-std', history=name, tags=['float-std', name]))
    return out


W_LO, W_HI = 2.0 ** -10, 2.0 ** 10


def run_float(h, cfg):
    """the real _ListDict_ on doubles.  float-bits: weights are symbolic IEEE binary64 values (z3 FloatingPoint theory, bit-precise):
    once the last candidate is gone the total rate must be EXACTLY 0 -- the simulators loop `while total_weight() > 0` and then
    select from the set.  float-std: standard model fl(x op y) = (x op y)(1+d), |d| <= 2^-53 over the reals: while candidates
    remain the total is positive and within 2*n*2^-53*(sum of everything ever added) of the exact sum of the current weights."""
    import EoN.simulation as sim
    from vlib import fpx
    eng = symx.ENG
    install_sim(RandomStub())
    bits = cfg['family'] == 'float-bits'
    hist = FLOAT_HISTORIES[cfg['history']]
    nsym = 1 + max([op[2] for op in hist if len(op) == 3] + [0])
    if bits:
        ws = [fpx.symbol('w%d' % j, W_LO, W_HI) for j in range(nsym)]
    else:
        ws = [fpx.std_symbol('w%d' % j, W_LO, W_HI) for j in range(nsym)]
        exact = [eng.real('w%d' % j, lo=W_LO, hi=W_HI) for j in range(nsym)]     # the same symbols, as exact reals
    ld = sim._ListDict_(weighted=True)
    cur = {}          # exact current weights (reals), float-std only
    added = 0
    n = 0
    for op in hist:
        n += 1
        item = ('it', op[1])
        if op[0] == 'ins':
            st, v = h.call(ld.insert, item, ws[op[2]])
            if not bits:
                cur[item] = exact[op[2]]
                added = added + exact[op[2]]
        elif op[0] == 'ins0':
            st, v = h.call(ld.insert, item, 0)
            cur.pop(item, None)
        elif op[0] == 'upd':
            st, v = h.call(ld.update, item, ws[op[2]])
            if not bits:
                cur[item] = cur.get(item, 0) + exact[op[2]]
                added = added + exact[op[2]]
        else:
            st, v = h.call(ld.remove, item)
            cur.pop(item, None)
        if st == 'exc':
            h.fail('op-no-exception:' + type(v).__name__, {'exception': repr(v)[:200], 'op': list(op)})
            return None
        tot = ld.total_weight()
        if len(ld) == 0:
            if not bits:
                continue      # exactness at the empty set is a statement about bits, not about error bounds: decided by float-bits
            ok = h.require('empty-set-total-is-zero', fpx.EQ(tot, 0) if bits else EQ(tot, 0),
                           {'after': [list(o) for o in hist[:n]], 'total_weight()': fpx.show(tot) if bits else show(tot)})
            if not ok and eng.mode != 'sym':
                _public_api_demo(h, ws)
        elif not bits:
            h.require('nonempty-total-positive', LT(0, tot), {'after': [list(o) for o in hist[:n]], 'total_weight()': show(tot)})
            s_ = 0
            for it in ld.items:
                s_ = s_ + cur[it]
            bound = added * (2 * n) * fpx.U
            h.require('total-within-rounding-of-sum', AND(LE(tot - s_, bound), LE(s_ - tot, bound)),
                      {'after': [list(o) for o in hist[:n]], 'total_weight()': show(tot), 'exact_sum': show(s_)})
    return None


def _public_api_demo(h, ws):
    """(concrete replay only) the same rounding residue through a public entry point: two isolated nodes with rates w0, w1"""
    import networkx as nx
    import EoN
    try:
        G = nx.Graph()
        G.add_nodes_from([0, 1])
        rates = {0: float(ws[0]), 1: float(ws[1])}
        st, v = h.call(EoN.Gillespie_complex_contagion, G, lambda G_, u, s, p: rates[u] if s[u] == 'A' else 0, lambda G_, u, s, p: 'B',
                       lambda G_, u, s, p: [], {0: 'A', 1: 'A'}, ('A', 'B'), tmax=float('inf'))
        symx.ENG.notes.append(('Gillespie_complex_contagion on two isolated nodes with these rates', repr(v)[:120] if st == 'exc' else 'returned normally (selection order differed)'))
    except Exception as e:
        symx.ENG.notes.append(('public api demo failed', repr(e)[:100]))


def build(cfg, sim):
    eng = symx.ENG
    k = cfg['k']
    ld = sim._ListDict_(weighted=True)
    ws = []
    M = eng.real('M', lo=0)
    for i in range(k):
        w = eng.real('w%d' % i, lo=0)
        eng.assume(LE(w, M))
        it = ('it', i)
        ld.items.append(it)
        ld.item_to_position[it] = i
        ld.weight[it] = w
        ws.append(w)
    ld.max_weight = M
    ld.max_weight_count = cfg['count']
    tot = 0
    for w in ws:
        tot = tot + w
    ld._total_weight = tot
    return ld


def check_inv(h, ld, tag=''):
    items = ld.items
    ok = (len(set(items)) == len(items) and len(ld.item_to_position) == len(items)
          and all(ld.item_to_position.get(it) == i for i, it in enumerate(items))
          and set(ld.weight.keys()) >= set(items))
    if ok:
        h.require('inv:positions', True)
    else:
        h.fail('inv:positions', {'items': [str(i) for i in items], 'pos': {str(a): b for a, b in ld.item_to_position.items()},
                                 'wkeys': [str(a) for a in ld.weight.keys()], 'at': tag})
        return False
    # no stale weights: the weight table is a defaultdict that increments add to, so an entry left behind for a removed candidate
    # would be stacked onto when that candidate comes back
    stale = [k for k in list(ld.weight.keys()) if k not in ld.item_to_position]
    for k in stale:
        if not h.require('inv:no-stale-weight', EQ(ld.weight[k], 0), {'candidate_not_in_set': str(k), 'weight_left_behind': show(ld.weight[k]), 'at': tag}):
            return False
    if not stale:
        h.require('inv:no-stale-weight', True)
    tot = 0
    good = True
    for it in items:
        w = ld.weight[it]
        tot = tot + w
        good &= h.require('inv:max>=weights', LE(w, ld.max_weight), {'item': str(it), 'w': show(w), 'max': show(ld.max_weight), 'at': tag})
        good &= h.require('inv:weights>=0', LE(0, w), {'item': str(it), 'w': show(w), 'at': tag})
    good &= h.require('inv:total=sum', EQ(ld._total_weight, tot), {'total': show(ld._total_weight), 'sum': show(tot), 'at': tag})
    return good


def apply_op(ld, op, tgt, a):
    if op == 'insert_new':
        ld.insert(('new', 0), weight=a)
    elif op == 'insert_existing':
        ld.insert(('it', tgt), weight=a)
    elif op == 'update_new':
        ld.update(('new', 0), weight_increment=a)
    elif op == 'update_existing':
        ld.update(('it', tgt), weight_increment=a)
    elif op == 'remove':
        ld.remove(('it', tgt))
    elif op == 'recompute_total':
        ld.update_total_weight()      # (Gillespie_simple_contagion calls it when the running total is tiny)


def run_path(h, cfg):
    import EoN.simulation as sim
    eng = symx.ENG
    if cfg.get('family') in ('float-bits', 'float-std'):
        return run_float(h, cfg)
    if cfg.get('family') == 'unweighted':
        return run_unweighted(h, cfg)
    stub = RandomStub(max_uniform_per_step=cfg.get('R', 2) + 1)
    install_sim(stub)
    long_run = cfg.get('long_run')
    if cfg['k'] == 0 and cfg['op'] == 'none':
        ld = sim._ListDict_(weighted=True)      # base case of the induction: the empty set satisfies Inv
        ld.max_weight_count = 0
    else:
        ld = build(cfg, sim)
    a = eng.real('a', lo=0)
    st, v = h.call(apply_op, ld, cfg['op'], cfg['target'], a)
    if st == 'exc':
        h.fail('op-no-exception:' + type(v).__name__, {'exception': repr(v)[:200]})
        return None
    if not check_inv(h, ld, 'after ' + cfg['op']):
        return {'items': [str(i) for i in ld.items]}
    if cfg.get('op2'):
        b = eng.real('b', lo=0)
        op2 = cfg['op2']
        if op2 == 'insert_new':
            st, v = h.call(ld.insert, ('new', 1), b)
        elif op2 == 'remove0' and ld.items:
            st, v = h.call(ld.remove, ld.items[0])
        elif op2 == 'update0' and ld.items:
            st, v = h.call(ld.update, ld.items[0], b)
        if st == 'exc':
            h.fail('op-no-exception:' + type(v).__name__, {'exception': repr(v)[:200]})
            return None
        if not check_inv(h, ld, 'after second op'):
            return None
    # ---- selection on the post-state
    items = list(ld.items)
    weights = {it: ld.weight[it] for it in items}
    tot = 0
    for it in items:
        tot = tot + weights[it]
    h.require('total_weight()=sum', EQ(ld.total_weight(), tot), {'got': show(ld.total_weight()), 'sum': show(tot)})
    out = {'items': [str(i) for i in items], 'weights': [weights[i] for i in items], 'max': ld.max_weight, 'total': ld.total_weight()}
    if not items:
        return out
    # precondition of selection: some weight positive
    pos = OR(*[LT(0, weights[it]) for it in items])
    if eng.mode == 'sym':
        if not eng.feasible(pos):
            return out
        eng.assume(pos)
    elif not pos:
        return out
    if long_run:
        # light = item 0 (weight w0 < M, possibly 0), heavy = the last item, whose weight is pinned to the maximum
        light, heavy = items[0], items[-1]
        if eng.mode == 'sym':
            eng.assume(EQ(weights[heavy], ld.max_weight))
            eng.assume(LT(weights[light], ld.max_weight))
        thr_light = weights[light] / ld.max_weight
        stub.script_choice = lambda n, seq: (list(seq).index(light) if n < long_run else list(seq).index(heavy)) if light in seq and heavy in seq else None
        stub.script_u = lambda n, u: eng.assume(LE(thr_light, u)) if (n < long_run and eng.mode == 'sym') else None
    M0 = ld.max_weight          # (random_removal may recompute the maximum afterwards)
    n0 = len(eng.log)
    st, chosen = h.call(ld.random_removal if cfg.get('select') == 'random_removal' else ld.choose_random)
    if st == 'exc':
        h.fail('select-no-exception:' + type(chosen).__name__, {'exception': repr(chosen)[:200], 'weights': show([weights[i] for i in items]), 'max': show(M0)})
        return out
    log = eng.log[n0:]
    # protocol-independent part first: whatever the sampling scheme, the result is a current candidate of positive weight
    if chosen not in weights:
        h.fail('returns-a-current-candidate', {'chosen': str(chosen), 'items': [str(x) for x in items]})
        return out
    if not h.require('zero-weight-never-selected', LT(0, weights[chosen]), {'chosen': str(chosen), 'w': show(weights[chosen]), 'draws': len(log)}):
        return out
    # one weighted library draw (random.choices(items, weights=...)) is an acceptable protocol too, PROVIDED the weights handed over
    # are the current weights of the candidates they are paired with, position by position
    wl = [e for e in log if e[0] == 'wchoices']
    if wl and len(wl) == len([e for e in log if e[0] != 'cmp']):
        e = wl[-1]
        pop, ws, idx = list(e[1]), list(e[2]), e[3]
        if sorted(map(str, pop)) != sorted(map(str, items)):
            h.fail('proposal-uniform-over-items', {'proposed_from': [str(x) for x in pop], 'items': [str(x) for x in items]})
            return out
        h.require('weighted-draw-uses-current-weights', AND(True, *[EQ(ws[j], weights[pop[j]]) for j in range(len(pop))]),
                  {'candidates': [str(x) for x in pop], 'weights_passed': show(ws), 'current_weights': show([weights[x] for x in pop])})
        if pop[idx] != chosen:
            h.fail('returns-accepted-candidate', {'chosen': str(chosen), 'drawn': str(pop[idx])})
        out['chosen'] = str(chosen)
        return out
    # the draw protocol: (choice over items, uniform u, cmp) repeated; last iteration accepted
    i = 0
    iters = []
    while i < len(log):
        ent = log[i]
        if ent[0] != 'choice':
            raise symx.Inconclusive('selection does not follow the proposal/acceptance protocol the check can read (draw kinds: %s)' % [e[0] for e in log])
        if list(ent[1]) != items:
            h.fail('proposal-uniform-over-items', {'proposed_from': [str(x) for x in ent[1]], 'items': [str(x) for x in items]})
            return out
        h.require('proposal-uniform-over-items', True)
        cand = ent[1][ent[2]]
        if i + 1 >= len(log) or log[i + 1][0] != 'random':
            raise symx.Inconclusive('selection does not follow the proposal/acceptance protocol the check can read (draw kinds: %s)' % [e[0] for e in log])
        u = log[i + 1][1]
        cmps = []
        j = i + 2
        while j < len(log) and log[j][0] == 'cmp':
            cmps.append(log[j])
            j += 1
        iters.append((cand, u, cmps))
        i = j
    for it_i, (cand, u, cmps) in enumerate(iters):
        w = weights[cand]
        thr = w / M0
        h.require('accept-prob-in-[0,1]', AND(LE(0, thr), LE(thr, 1)), {'w': show(w), 'max': show(M0)})
        if eng.mode == 'sym':
            # the acceptance region read off the code's own comparisons of u (any comparison linear in u) must be [0, w/max)
            from vlib import laws
            pv = laws.Prover(list(eng.pc))
            try:
                lo, hi, used = laws.uniform_interval(u, cmps, pv)
            except laws.LawError as e:
                raise symx.Inconclusive('acceptance test not linear in the uniform draw: %s' % e)
            accepted = (it_i == len(iters) - 1)
            if accepted:
                h.require('accept-threshold', AND(lo == 0, hi == lift(thr)), {'interval': [str(lo), str(hi)], 'w/max': show(thr)})
            else:
                h.require('accept-threshold', AND(lo == lift(thr), hi == 1), {'interval': [str(lo), str(hi)], 'w/max': show(thr)})
    cand, u, cmps = iters[-1]
    if cand != chosen:
        h.fail('returns-accepted-candidate', {'chosen': str(chosen), 'last': str(cand)})
    h.require('zero-weight-never-selected', LT(0, weights[chosen]), {'chosen': str(chosen), 'w': show(weights[chosen])})
    h.require('accepted-iff-u<w/max', LT(u, weights[chosen] / M0), None)
    out['chosen'] = str(chosen)
    if cfg.get('select') == 'random_removal':
        # the selected candidate is gone, everything else (and Inv) is intact
        if chosen in ld.items or chosen in ld.item_to_position or sorted(map(str, ld.items)) != sorted(str(x) for x in items if x != chosen):
            h.fail('random_removal-removes-the-selected', {'chosen': str(chosen), 'items_after': [str(x) for x in ld.items]})
        else:
            h.require('random_removal-removes-the-selected', True)
        check_inv(h, ld, 'after random_removal')
    return out


def run_unweighted(h, cfg):
    """the unweighted variant: positions consistent after every operation, selection = one uniform choice over exactly the current items,
    total_weight() = number of items"""
    import EoN.simulation as sim
    eng = symx.ENG
    stub = RandomStub(max_uniform_per_step=3)
    install_sim(stub)
    ld = sim._ListDict_()
    for i in range(cfg['k']):
        ld.items.append(('it', i))
        ld.item_to_position[('it', i)] = i
    if cfg['op'] == 'insert_new':
        st, v = h.call(ld.insert, ('new', 0))
    elif cfg['op'] == 'remove':
        st, v = h.call(ld.remove, ('it', cfg['target']))
    else:
        st, v = 'ok', None
    if st == 'exc':
        h.fail('op-no-exception:' + type(v).__name__, {'exception': repr(v)[:200]})
        return None
    items = list(ld.items)
    want = [('it', i) for i in range(cfg['k']) if not (cfg['op'] == 'remove' and i == cfg['target'])] + ([('new', 0)] if cfg['op'] == 'insert_new' else [])
    ok = (sorted(map(str, items)) == sorted(map(str, want)) and len(set(items)) == len(items) and len(ld.item_to_position) == len(items)
          and all(ld.item_to_position.get(it) == i for i, it in enumerate(items)))
    if ok:
        h.require('inv:positions', True)
    else:
        h.fail('inv:positions', {'items': [str(i) for i in items], 'want': [str(i) for i in want]})
        return None
    if len(ld) != len(items) or any((it in ld) is not True for it in items) or (('gone', 0) in ld):
        h.fail('unweighted-len-contains', {'len': len(ld)})
    st, tw = h.call(ld.total_weight)
    if st == 'exc' or tw != len(items):
        h.fail('unweighted-total=count', {'got': repr(tw)[:80], 'items': len(items)})
    else:
        h.require('unweighted-total=count', True)
    if not items:
        return None
    for sel in ('choose_random', 'random_removal'):
        n0 = len(eng.log)
        st, chosen = h.call(getattr(ld, sel))
        log = [e for e in eng.log[n0:] if e[0] != 'cmp']
        if st == 'exc':
            h.fail('select-no-exception:' + type(chosen).__name__, {'exception': repr(chosen)[:200]})
            return None
        if len(log) != 1 or log[0][0] != 'choice':
            raise symx.Inconclusive('unweighted selection does not use a single uniform choice (draw kinds: %s)' % [e[0] for e in log])
        if list(log[0][1]) != items or log[0][1][log[0][2]] != chosen:
            h.fail('unweighted-uniform-over-items', {'proposed_from': [str(x) for x in log[0][1]], 'items': [str(x) for x in items], 'chosen': str(chosen)})
        else:
            h.require('unweighted-uniform-over-items', True)
    if chosen in ld.items or len(ld.items) != len(items) - 1 or any(ld.item_to_position.get(it) != i for i, it in enumerate(ld.items)):
        h.fail('random_removal-removes-the-selected', {'chosen': str(chosen), 'items_after': [str(x) for x in ld.items]})
    else:
        h.require('random_removal-removes-the-selected', True)
    return None

"""C15 -- Gillespie_complex_contagion always acts on up-to-date rates."""
from collections import Counter
import z3
from vlib import symx, graphs, simruns, gillaw
from vlib.symx import INF, EQ, LE, LT, AND, OR, NOT, show, Sym, lift
from vlib.stubs import RandomStub, NPProxy, install_sim

PROPERTY = 'C15'
EXPLANATION = ("Gillespie_complex_contagion is executed symbolically with harness-supplied user models (SIR and SIS written as rate "
               "functions, a two-neighbour threshold contagion with spontaneous reversion, a long-range model whose influence set is "
               "every node) whose rates are symbolic multiples of status counts; the callbacks record their arguments.  The reference "
               "is the chain 'node u changes at rate rate_function(G,u,current statuses); new status = chooser's answer', maintained "
               "by the harness from the chooser's answers only.  Per reachable state z3 proves for all parameter values: the clock "
               "rate handed to the exponential draw is the sum of the reference rates; the candidate weights handed to the selection "
               "primitive are exactly the reference rates (selection proportional to rate by C16); every callback sees the current "
               "statuses; the node's new status is the chooser's answer; the run stops exactly when all rates vanish (or the event "
               "bound / tmax is reached); the returned counts track the statuses.")
BOUNDS = {'quick': '4 user models x graphs K2, P3, K3, K2+K1 (isolated node) x representative initial statuses; <=3 events',
          'thorough': '4 user models x G3 + K2+K1, P4, S3 x all initial statuses with an active node; <=4 events'}
ASSUMPTIONS = ['floats as reals', 'user functions accept the parameters argument (the code always passes it)', 'influence-set function covers every node whose rate can change (property precondition)',
               'weighted candidate set through its abstraction (C16)', 'rates > 0 symbolic']
OPTS = {'quick': {'max_validate': 2, 'validate_every': 7, 'cfg_timeout': 200}, 'thorough': {'max_validate': 2, 'validate_every': 97, 'cfg_timeout': 1500}}
MUST_EVALUATE = {'quick': ['clock-rate', 'event-law', 'no-missing-event', 'absorbing-iff-zero-rate', 'callback-sees-current-status',
                           'new-status-is-chooser-answer', 'counts-track-statuses']}


def functions():
    import EoN.simulation as s
    return [s.Gillespie_complex_contagion, s._ListDict_.insert, s._ListDict_.total_weight]


# ---- user models (pure functions of (G, node, status, params)) --------------------------------
def _cnt(G, u, status, s):
    return len([v for v in G.neighbors(u) if status[v] == s])


MODELS = {
    'SIR': dict(statuses=['S', 'I', 'R'], params=['tau', 'gamma'],
                rate=lambda G, u, st, p: p['gamma'] if st[u] == 'I' else (p['tau'] * _cnt(G, u, st, 'I') if st[u] == 'S' else 0),
                choice=lambda G, u, st, p: 'R' if st[u] == 'I' else 'I',
                influence=lambda G, u, st, p: [v for v in G.neighbors(u) if st[v] == 'S']),
    # no recovery: an infected node's own rate is 0 (the changed node can be the only candidate, and its change enables a neighbour)
    'SI': dict(statuses=['S', 'I'], params=['tau'],
               rate=lambda G, u, st, p: 0 if st[u] == 'I' else p['tau'] * _cnt(G, u, st, 'I'),
               choice=lambda G, u, st, p: 'I',
               influence=lambda G, u, st, p: [v for v in G.neighbors(u) if st[v] == 'S']),
    'SIS': dict(statuses=['S', 'I'], params=['tau', 'gamma'],
                rate=lambda G, u, st, p: p['gamma'] if st[u] == 'I' else p['tau'] * _cnt(G, u, st, 'I'),
                choice=lambda G, u, st, p: 'S' if st[u] == 'I' else 'I',
                influence=lambda G, u, st, p: list(G.neighbors(u))),
    'threshold': dict(statuses=['A', 'B'], params=['r', 'q'],
                      rate=lambda G, u, st, p: (p['r'] if _cnt(G, u, st, 'B') >= 2 else 0) if st[u] == 'A' else p['q'],
                      choice=lambda G, u, st, p: 'B' if st[u] == 'A' else 'A',
                      influence=lambda G, u, st, p: list(G.neighbors(u))),
    'longrange': dict(statuses=['S', 'I', 'R'], params=['beta', 'gamma'],
                      rate=lambda G, u, st, p: p['gamma'] if st[u] == 'I' else (p['beta'] * len([v for v in G if st[v] == 'I']) if st[u] == 'S' else 0),
                      choice=lambda G, u, st, p: 'R' if st[u] == 'I' else 'I',
                      influence=lambda G, u, st, p: list(G.nodes())),
}


def _ics(model, n, tier):
    import itertools
    sts = MODELS[model]['statuses']
    active = {'SIR': 'I', 'SIS': 'I', 'SI': 'I', 'threshold': 'B', 'longrange': 'I'}[model]
    if tier == 'thorough':
        return [list(a) for a in itertools.product(sts, repeat=n) if active in a]
    out = []
    base = [sts[0]] * n
    for i in range(min(n, 2)):
        a = list(base); a[i] = active; out.append(a)
    if n >= 3:
        a = list(base); a[0] = active; a[2] = active; out.append(a)
        a = list(base); a[1] = active; a[2] = sts[-1]; out.append(a)
    if n == 2:
        out.append([active, active])
    return out


def configs(tier):
    out = []
    E = 3 if tier == 'quick' else 4
    gl = ['K2', 'P3', 'K3', 'K2+K1'] if tier == 'quick' else list(dict.fromkeys(list(graphs.G3) + ['K2+K1', 'P4', 'S3']))
    for model in MODELS:
        for g in gl:
            n = graphs.ALL[g][0]
            for ic in _ics(model, n, tier):
                for full in (False, True):
                    if full and (tier == 'quick' and g == 'K3'):
                        continue
                    out.append(dict(entry='Gillespie_complex_contagion', model=model, graph=g, ic=ic, full=full, max_expo=E, truncate=True,
                                    wstub='abstract', tags=[model, g, 'full' if full else 'plain']))
                if g == 'P3' and ic == _ics(model, n, tier)[0]:
                    out.append(dict(entry='Gillespie_complex_contagion', model=model, graph=g, ic=ic, full=False, max_expo=E, truncate=True,
                                    return_order='reversed', wstub='abstract', tags=[model, g, 'return-order']))
                    # parameters=None (the user functions then receive an empty tuple)
                    out.append(dict(entry='Gillespie_complex_contagion', model=model, graph=g, ic=ic, full=False, max_expo=E, truncate=True,
                                    no_parameters=True, wstub='abstract', tags=[model, g, 'parameters=None']))
                if g in ('P3', 'K3'):
                    # the influence set may be any iterable the user likes: a one-shot iterator (G.neighbors(node)), a set, a tuple
                    for infl in ('iterator', 'set', 'tuple'):
                        if tier == 'quick' and g == 'K3' and infl != 'iterator':
                            continue
                        out.append(dict(entry='Gillespie_complex_contagion', model=model, graph=g, ic=ic, full=False, max_expo=E, truncate=True,
                                        infl=infl, wstub='abstract', tags=[model, g, 'influence:' + infl]))
                if g in ('K2', 'P3') or tier == 'thorough':
                    # finite symbolic horizon: nothing may be reported at or after tmax
                    out.append(dict(entry='Gillespie_complex_contagion', model=model, graph=g, ic=ic, full=(g == 'K2'), max_expo=E - 1, truncate=True,
                                    tmax='sym', wstub='abstract', tags=[model, g, 'tmax']))
    # nothing can happen from the start (all rates zero): a single row at tmin
    for model in MODELS:
        inactive = MODELS[model]['statuses'][0] if model != 'threshold' else 'A'
        for g in ('K2', 'P3'):
            n = graphs.ALL[g][0]
            for full in (False, True):
                out.append(dict(entry='Gillespie_complex_contagion', model=model, graph=g, ic=[inactive] * n, full=full, max_expo=E, truncate=True,
                                wstub='abstract', tags=[model, g, 'nothing-active']))
    return out


class Chain:
    def __init__(self, G, model, params):
        self.G, self.m, self.p = G, MODELS[model], params

    def events(self, status):
        ev = {}
        for u in self.G.nodes():
            r = self.m['rate'](self.G, u, status, self.p)
            if not (isinstance(r, int) and r == 0):
                ev[('node', u)] = r
        return ev

    def apply(self, status, ev):
        s = dict(status)
        s[ev[1]] = self.m['choice'](self.G, ev[1], status, self.p)
        return s


def run_path(h, cfg):
    eng = symx.ENG
    import EoN
    import EoN.simulation as sim
    G = graphs.make(cfg['graph'])
    nodes = list(G.nodes())
    m = MODELS[cfg['model']]
    params = {k: eng.real(k, lo=0, lo_strict=True) for k in m['params']}
    user_params = params
    if cfg.get('no_parameters'):
        user_params = None
    stub = RandomStub(max_expo=cfg['max_expo'], truncate=True, max_draws=100)
    install_sim(stub, NPProxy())
    gillaw.uninstall_weighted_choice_stub(sim)
    gillaw.install_abstract_weighted_set(sim)
    tmin = eng.real('tmin')
    tmax = INF
    if cfg.get('tmax') == 'sym':
        tmax = eng.real('tmax')
        if eng.mode == 'sym':
            eng.assume(lift(tmax) > lift(tmin))
    current = {n: cfg['ic'][i] for i, n in enumerate(nodes)}
    IC = dict(current)
    answers = []
    stale = []

    def seen(status, who):
        if dict((n, status[n]) for n in nodes) != current:
            stale.append((who, {str(k): status[k] for k in nodes}, {str(k): v for k, v in current.items()}))

    def rate_function(G_, u, status, parameters):
        seen(status, 'rate_function(%s)' % (u,))
        if cfg.get('no_parameters'):
            if parameters != ():
                stale.append(('rate_function got parameters %r instead of ()' % (parameters,), {}, {}))
            parameters = params
        return m['rate'](G_, u, status, parameters)

    def transition_choice(G_, u, status, parameters):
        seen(status, 'transition_choice(%s)' % (u,))
        if cfg.get('no_parameters'):
            parameters = params
        new = m['choice'](G_, u, status, parameters)
        answers.append((u, status[u], new))
        current[u] = new          # the harness's own copy of "the current statuses", driven by the chooser only
        return new

    def get_influence_set(G_, u, status, parameters):
        seen(status, 'get_influence_set(%s)' % (u,))
        if cfg.get('no_parameters'):
            parameters = params
        res = m['influence'](G_, u, status, parameters)
        kind = cfg.get('infl')
        if kind == 'iterator':
            return iter(list(res))
        if kind == 'set':
            return set(res)
        if kind == 'tuple':
            return tuple(res)
        return res
    f = EoN.Gillespie_complex_contagion
    rs = list(reversed(m['statuses'])) if cfg.get('return_order') == 'reversed' else list(m['statuses'])
    ret = h.call_must_succeed('no-exception', f, G, rate_function, transition_choice, get_influence_set, IC, tuple(rs),
                              tmin=tmin, tmax=tmax, parameters=user_params, return_full_data=cfg['full'])
    h.truncated = stub.truncated
    if ret is None:
        return None
    if stale:
        h.fail('callback-sees-current-status', {'first': stale[0]})
    else:
        h.require('callback-sees-current-status', True)
    # replay the chooser's answers to get the expected rows
    st = {n: cfg['ic'][i] for i, n in enumerate(nodes)}
    rows = [Counter(st.values())]
    for (u, old, new) in answers:
        st[u] = new
        rows.append(Counter(st.values()))
    if cfg['full']:
        if not hasattr(ret, 'node_history'):
            h.fail('full-data-object-returned', {'got': type(ret).__name__})
            return None
        ok = True
        k = {n: 0 for n in nodes}
        hist = {n: (list(ret.node_history(n)[0]), list(ret.node_history(n)[1])) for n in nodes}
        for n in nodes:
            mine = [cfg['ic'][nodes.index(n)]] + [new for (u, old, new) in answers if u == n]
            if hist[n][1] != mine:
                ok = False
                h.fail('new-status-is-chooser-answer', {'node': str(n), 'history': hist[n][1], 'chooser': mine})
        if ok:
            h.require('new-status-is-chooser-answer', True)
        t = list(ret.t())
        D = ret.summary()[1]
        got = [{s: int(D[s][i]) for s in m['statuses']} for i in range(len(t))]
    else:
        t = list(ret[0])
        got = [{s: int(ret[j + 1][i]) for j, s in enumerate(rs)} for i in range(len(t))]
        h.require('new-status-is-chooser-answer', len(t) == len(rows), {'rows': len(t), 'chooser_calls': len(answers)})
    want = [{s: r.get(s, 0) for s in m['statuses']} for r in rows]
    if got == want:
        h.require('counts-track-statuses', True)
    else:
        h.fail('counts-track-statuses', {'returned': got, 'from_chooser_answers': want})
    h.require('t0=tmin', EQ(t[0], tmin), None)
    for a, b in zip(t, t[1:]):
        h.require('time-ordered', LT(a, b), None)
    if tmax != INF:
        for x in t:
            h.require('t<tmax', LT(x, tmax), {'t': show(x)})
    return {'t': t, 'rows': got}


def event_of_step(chosen, status, draws):
    if not chosen:
        return None
    return ('node', chosen[-1][1])


def post(cfg, records, eng):
    if cfg.get('tmax') == 'sym':
        return []      # finite-horizon runs check the cut-off only; the law obligations are discharged on the unbounded-horizon configurations
    G = graphs.make(cfg['graph'])
    m = MODELS[cfg['model']]
    params = {k: Sym(z3.Real(k)) for k in m['params']}
    chain = Chain(G, cfg['model'], params)
    nodes = list(G.nodes())
    status0 = {n: cfg['ic'][i] for i, n in enumerate(nodes)}
    base = [z3.Real(k) > 0 for k in m['params']]
    return gillaw.analyse(records, base, chain, status0, event_of_step)

"""C08 -- ODE models are exact where theory says so: trees, final sizes, limits."""
import itertools
from fractions import Fraction as Fr
import numpy as np
import networkx as nx
import z3
from vlib import symx, graphs, odex, taylor
from vlib.taylor import Poly, Series, lift0
from vlib.symx import Sym, lift, show
from checks.C06 import SIS_GRAPH, SIR_GRAPH

PROPERTY = 'C08'
EXPLANATION = ("(a) Trees: SIR_pair_based_pure_IC (through the public entry point, optional symbolic edge and node weights) is run in "
               "Taylor mode -- exact power series in t with polynomial coefficients in tau, gamma and the weights, Picard iteration "
               "through the real _dSIR_pair_based_ -- and compared, node by node and coefficient by coefficient (z3), with the series "
               "L Q^k p0 / k! of the 3^N-state master equation built by an independent reference; every tree of the bound, every "
               "seed placement, with and without initially recovered nodes.  A triangle must be REJECTED (closure not exact): "
               "vacuity guard.  (b) tau = 0: for every model the S series is constant and I(t) has the coefficients of I0 exp(-gamma "
               "t).  (c) gamma = 0: SIS and SIR version of each model (super-compact excluded) have identical S series.  (d) Final "
               "sizes, everything symbolic (odex): k iterations of Attack_rate_cts_time equal k iterations of the reference map g; the "
               "real _dEBCM_ satisfies dtheta/dt = (tau+gamma)(g(theta) - theta), so fixed points of g are exactly the rest points of "
               "EBCM, where I = 0 and R/N = 1 - psihat(theta) = the returned attack rate; Attack_rate_discrete's iteration is the theta "
               "update of EBCM_discrete, whose R(t+1) = R(t) + I(t); the *_from_graph variants agree with the direct functions.")
BOUNDS = {'quick': 'trees P2, P3, P4, S3 with all seed placements (up to automorphism), order m = 6 (weights on P3, S3: m = 4); limits on paw, irr5 with rho = 1/5, m = 5; final-size identities K = 3 (degrees 1..3) and degrees 0..2 with P0 > 0, k <= 2 iterations',
          'thorough': 'adds T5, P5, S4 (m = 8), weights on P4; m = 8 for limits; K = 4, k <= 3'}
ASSUMPTIONS = ['bounded statement: agreement of Taylor coefficients to order m (equality for all t is the Sharkey et al. theorem and is not claimed)',
               'convergence of the fixed-point iterations and of t -> infinity is analysis, not claimed', 'exact rational arithmetic; L5']
OPTS = {'quick': {'max_validate': 0, 'cfg_timeout': 250}, 'thorough': {'max_validate': 0, 'cfg_timeout': 1700}}
VALIDATE = False
MUST_EVALUATE = {'quick': ['tree-exact', 'triangle-rejected', 'tau=0', 'gamma=0', 'attack-rate-iteration', 'ebcm-rest-points', 'discrete-final-size', 'from-graph=direct']}

PAIRS_G0 = [('SIS_homogeneous_meanfield_from_graph', 'SIR_homogeneous_meanfield_from_graph'),
            ('SIS_homogeneous_pairwise_from_graph', 'SIR_homogeneous_pairwise_from_graph'),
            ('SIS_heterogeneous_meanfield_from_graph', 'SIR_heterogeneous_meanfield_from_graph'),
            ('SIS_heterogeneous_pairwise_from_graph', 'SIR_heterogeneous_pairwise_from_graph'),
            ('SIS_compact_pairwise_from_graph', 'SIR_compact_pairwise_from_graph'),
            ('SIS_effective_degree_from_graph', 'SIR_effective_degree_from_graph'),
            ('SIS_compact_effective_degree_from_graph', 'SIR_compact_effective_degree_from_graph'),
            ('SIS_individual_based', 'SIR_individual_based'), ('SIS_pair_based', 'SIR_pair_based')]


def functions():
    import EoN.analytic as an
    return [an._dSIR_pair_based_, an.SIR_pair_based, an.SIR_pair_based_pure_IC, an.Attack_rate_cts_time, an.Attack_rate_discrete, an._dEBCM_, an.EBCM,
            an.EBCM_discrete, an.Attack_rate_cts_time_from_graph, an.Attack_rate_discrete_from_graph] + [getattr(an, a) for p in PAIRS_G0 for a in p]


def configs(tier):
    out = []
    m = 6 if tier == 'quick' else 8
    trees = ['K2', 'P3', 'P4', 'S3'] + (['T5', 'P5', 'S4'] if tier == 'thorough' else [])
    for g in trees:
        for I0, R0 in graphs.automorphism_reduced_ics(g):
            if len(R0) > 1 or (tier == 'quick' and len(I0) > 2):
                continue
            out.append(dict(family='tree', entry='SIR_pair_based_pure_IC', graph=g, I0=I0, R0=R0, weighted=False, order=m if graphs.ALL[g][0] <= 4 else 6,
                            tags=['tree', g] + (['R0'] if R0 else [])))
            if g in (('P3', 'S3') if tier == 'quick' else ('P3', 'S3', 'P4')) and len(I0) == 1 and not R0:
                out.append(dict(family='tree', entry='SIR_pair_based_pure_IC', graph=g, I0=I0, R0=R0, weighted=True, order=4, tags=['tree', g, 'weighted']))
            if g in ('K2', 'P3') and len(I0) == 1 and not R0:
                # edges carry networkx's conventional attribute 'weight', but no transmission_weight is named: plain tau on every edge
                out.append(dict(family='tree', entry='SIR_pair_based_pure_IC', graph=g, I0=I0, R0=R0, weighted=False, order=4, unrelated_weight_attr=True,
                                tags=['tree', g, 'unrelated-weight-attribute']))
            if g in ('P3', 'S3') and len(I0) == 1 and len(R0) <= 1:
                nl = {'P3': [0, 2, 1], 'S3': [1, 0, 3, 2]}[g]
                out.append(dict(family='tree', entry='SIR_pair_based_pure_IC', graph=g, I0=I0, R0=R0, weighted=False, order=4, nodelist=nl,
                                tags=['tree', g, 'nodelist']))
            if g in ('P3', 'S3', 'P4') and len(I0) == 2 and not R0:
                # several seeds around one susceptible node with unequal edge weights (each edge's own rate in the triple terms)
                out.append(dict(family='tree', entry='SIR_pair_based_pure_IC', graph=g, I0=I0, R0=R0, weighted=True, order=3 if (tier == 'quick' or g == 'P4') else 4,
                                tags=['tree', g, 'weighted', 'multi-seed']))
    out.append(dict(family='triangle', entry='SIR_pair_based_pure_IC', graph='K3', I0=[0], R0=[], weighted=False, order=5, tags=['triangle']))
    for g in ['paw', 'irr5']:
        for name in SIS_GRAPH + SIR_GRAPH + ['SIS_individual_based', 'SIR_individual_based', 'SIS_pair_based', 'SIR_pair_based']:
            if 'pair_based' in name and g == 'irr5':
                continue
            out.append(dict(family='tau0', entry=name, graph=g, rho='1/5', order=5 if tier == 'quick' else 8, tags=['tau0', name, g]))
        for (a, b) in PAIRS_G0:
            if 'pair_based' in a and g == 'irr5':
                continue
            out.append(dict(family='gamma0', entry=a, pair=[a, b], graph=g, rho='1/5', order=5 if tier == 'quick' else 8, tags=['gamma0', a, g]))
    for K in ((3,) if tier == 'quick' else (3, 4)):
        for kind in ('rho', 'Sk0'):
            out.append(dict(family='final-cts', entry='Attack_rate_cts_time', K=K, kind=kind, its=2 if tier == 'quick' else 3, tags=['final', 'cts', kind]))
            out.append(dict(family='final-discrete', entry='Attack_rate_discrete', K=K, kind=kind, its=2 if tier == 'quick' else 3, tags=['final', 'discrete', kind]))
            if K == 3:
                # degree distributions with isolated nodes (P0 > 0): they stay susceptible and count towards psihat
                out.append(dict(family='final-cts', entry='Attack_rate_cts_time', K=2, k0=True, kind=kind, its=2, tags=['final', 'cts', kind, 'degree-0']))
                out.append(dict(family='final-discrete', entry='Attack_rate_discrete', K=2, k0=True, kind=kind, its=2, tags=['final', 'discrete', kind, 'degree-0']))
    for g in ['paw', 'irr5', 'S3']:      # S3 with its centre infected: no susceptible-susceptible edge at all (phiS0 = 0)
        for ic in ('rho', 'sets'):
            out.append(dict(family='final-graph', entry='Attack_rate_*_from_graph', graph=g, ic=ic, tags=['final', 'from_graph', g, ic]))
    return out


# ---- (a) master equation as exact polynomials ------------------------------------------------------
def master_series(G, nodes, I0, R0, tau, gamma, tw, rw, M):
    idx = {n: i for i, n in enumerate(nodes)}
    N = len(nodes)
    p = {tuple('I' if n in I0 else 'R' if n in R0 else 'S' for n in nodes): Poly.const(1)}

    def Qapply(p):
        out = {}

        def add(s, v):
            out[s] = out.get(s, Poly()) + v
        for s, pv in p.items():
            for i, n in enumerate(nodes):
                if s[i] == 'I':
                    r = gamma * rw(n)
                    add(s[:i] + ('R',) + s[i + 1:], r * pv)
                    add(s, -(r * pv))
                    for nb in G[n]:
                        j = idx[nb]
                        if s[j] == 'S':
                            t_ = tau * tw(n, nb)
                            add(s[:j] + ('I',) + s[j + 1:], t_ * pv)
                            add(s, -(t_ * pv))
        return out
    X = [[None] * (M + 1) for _ in range(N)]
    Y = [[None] * (M + 1) for _ in range(N)]
    fact = 1
    for k in range(M + 1):
        if k > 0:
            p = Qapply(p)
            fact *= k
        for i in range(N):
            X[i][k] = sum((v for s, v in p.items() if s[i] == 'S'), Poly()) * Poly.const(Fr(1, fact))
            Y[i][k] = sum((v for s, v in p.items() if s[i] == 'I'), Poly()) * Poly.const(Fr(1, fact))
    return [Series(x) for x in X], [Series(y) for y in Y]


def run_tree(h, cfg, expect_mismatch=False):
    import EoN
    import EoN.analytic as an
    G = graphs.make(cfg['graph'])
    nodes = list(G.nodes())
    names = ['tau', 'gamma']
    if cfg['weighted']:
        names += ['w_%s_%s' % (u, v) for u, v in G.edges()] + ['nw_%s' % (u,) for u in nodes]
    taylor.set_vars(names)
    taylor.set_order(cfg['order'])
    M = cfg['order']
    taylor.install(an)
    try:
        tau, gamma = Poly.var('tau'), Poly.var('gamma')
        kw = dict(tmin=0, tmax=1, tcount=2, return_full_data=True)
        if cfg['weighted']:
            for (u, v) in G.edges():
                G.edges[u, v]['tw'] = Poly.var('w_%s_%s' % (u, v))
            for u in nodes:
                G.nodes[u]['rw'] = Poly.var('nw_%s' % (u,))
            kw.update(transmission_weight='tw', recovery_weight='rw')
            tw = lambda a, b: G.edges[a, b]['tw']
            rw = lambda a: G.nodes[a]['rw']
        else:
            tw = lambda a, b: Poly.const(1)
            rw = lambda a: Poly.const(1)
        if cfg['R0']:
            kw['initial_recovereds'] = list(cfg['R0'])
        if cfg.get('unrelated_weight_attr'):
            for i, (u, v) in enumerate(G.edges()):
                G.edges[u, v]['weight'] = 2 + i
        order = list(nodes)
        if cfg.get('nodelist'):
            order = list(cfg['nodelist'])      # explicit node order (not an automorphism): per-node outputs follow it
            kw['nodelist'] = list(order)
        ret = h.call_must_succeed('no-exception', EoN.SIR_pair_based_pure_IC, G, tau, gamma, list(cfg['I0']), **kw)
        if ret is None:
            return None
        t, S, I, R, Xs, Ys, Zs = ret[:7]
        if cfg.get('nodelist'):
            pos = {n: i for i, n in enumerate(order)}
            Xs = [np.asarray(Xs, dtype=object)[pos[n]] for n in nodes]
            Ys = [np.asarray(Ys, dtype=object)[pos[n]] for n in nodes]
        refX, refY = master_series(G, nodes, cfg['I0'], cfg['R0'], tau, gamma, tw, rw, M)
        prover = taylor.CoeffProver([z3.Real(n_) > 0 for n_ in names])
        first = None
        for i, n in enumerate(nodes):
            for nm, got, ref in (('X', taylor.series_of(np.asarray(Xs, dtype=object)[i]), refX[i]), ('Y', taylor.series_of(np.asarray(Ys, dtype=object)[i]), refY[i])):
                d = prover.first_difference(got, ref)
                if d is not None and first is None:
                    first = (nm, n, d)
        # totals
        if first is None:
            totS = sum(refX[1:], refX[0])
            d = prover.first_difference(taylor.series_of(S), totS)
            if d is not None:
                first = ('S', 'total', d)
        if expect_mismatch:
            if first is None:
                h.fail('triangle-rejected', {'why': 'pair-based closure agreed with the master equation on a triangle to order %d: the comparison is vacuous' % M})
            else:
                h.require('triangle-rejected', True)
            return None
        if first is None:
            h.require('tree-exact', True)
        else:
            nm, n, (k, m, a, b) = first
            h.record_failure('tree-exact', {'quantity': '%s[%s]' % (nm, n), 'first_differing_order': k, 'pair_based': repr(a)[:200], 'master_equation': repr(b)[:200]}, odex.model_values(m))
        return None
    finally:
        taylor.uninstall(an)


# ---- (b), (c) limits ---------------------------------------------------------------------------------
def _run(EoN, name, G, tau, gamma, rho):
    f = getattr(EoN, name)
    r = f(G, tau, gamma, rho=rho, tmin=0, tmax=1, tcount=2)
    return [taylor.series_of(x) for x in r[1:]], [np.asarray(x, dtype=object).reshape(-1)[0] for x in r[1:]]


def run_tau0(h, cfg):
    import EoN
    import EoN.analytic as an
    taylor.set_vars(['tau', 'gamma'])
    taylor.set_order(cfg['order'])
    taylor.install(an)
    try:
        G = graphs.make(cfg['graph'])
        gamma = Poly.var('gamma')
        rho = Fr(cfg['rho'])
        st, v = h.call(_run, EoN, cfg['entry'], G, Poly(), gamma, rho)
        if st == 'exc':
            h.fail('tau=0:' + type(v).__name__, {'exception': repr(v)[:300]})
            return None
        ser, row0 = v
        M = cfg['order']
        prover = taylor.CoeffProver([z3.Real('gamma') > 0])
        N = G.order()
        S0, I0 = (1 - rho) * N, rho * N
        sis = cfg['entry'].startswith('SIS')
        wantS = Series([S0])
        wantI = Series([Poly.const(I0) * (Poly.const(-1) * gamma) ** k * Poly.const(Fr(1, _fact(k))) for k in range(M + 1)])
        d2 = prover.first_difference(ser[1], wantI)
        # SIR: S stays constant.  SIS: recovered nodes return to S, so S = N - I (the statement's "S constant" can only mean SIR)
        d1 = prover.first_difference(ser[0], Series([N]) - wantI) if sis else prover.first_difference(ser[0], wantS)
        if d1 is None and d2 is None:
            h.require('tau=0', True)
        else:
            d = d1 or d2
            h.record_failure('tau=0', {'series': 'S' if d1 else 'I', 'first_differing_order': d[0], 'got': repr(d[2])[:200], 'want': repr(d[3])[:200]}, odex.model_values(d[1]))
        return None
    finally:
        taylor.uninstall(an)


def _fact(k):
    r = 1
    for i in range(2, k + 1):
        r *= i
    return r


def run_gamma0(h, cfg):
    import EoN
    import EoN.analytic as an
    taylor.set_vars(['tau', 'gamma'])
    taylor.set_order(cfg['order'])
    taylor.install(an)
    try:
        G = graphs.make(cfg['graph'])
        tau = Poly.var('tau')
        rho = Fr(cfg['rho'])
        res = []
        for name in cfg['pair']:
            st, v = h.call(_run, EoN, name, G, tau, Poly(), rho)
            if st == 'exc':
                h.fail('gamma=0:' + type(v).__name__, {'model': name, 'exception': repr(v)[:300]})
                return None
            res.append(v[0])
        prover = taylor.CoeffProver([z3.Real('tau') > 0])
        d = prover.first_difference(res[0][0], res[1][0])
        if d is None:
            h.require('gamma=0', True)
        else:
            h.record_failure('gamma=0', {'pair': cfg['pair'], 'first_differing_order': d[0], 'SIS': repr(d[2])[:200], 'SIR': repr(d[3])[:200]}, odex.model_values(d[1]))
        return None
    finally:
        taylor.uninstall(an)


# ---- (d) final sizes --------------------------------------------------------------------------------
def run_final_cts(h, cfg):
    import EoN.analytic as an
    eng = symx.ENG
    eng.div_guard = False
    odex.install(an, odex.FlowStub())
    try:
        K = cfg['K']
        tau, gamma = eng.real('tau', lo=0, lo_strict=True), eng.real('gamma', lo=0, lo_strict=True)
        Pk = {k: eng.real('P%d' % k, lo=0, lo_strict=True) for k in range(0 if cfg.get('k0') else 1, K + 1)}
        if cfg['kind'] == 'rho':
            rho = eng.real('rho', lo=0, hi=1, lo_strict=True, hi_strict=True)
            Sk0 = {k: 1 - rho for k in Pk}
            kw = dict(rho=rho)
            phiS0 = None
            phiR0 = 0
        else:
            Sk0 = {k: eng.real('s%d' % k, lo=0, hi=1, lo_strict=True) for k in Pk}
            phiS0 = eng.real('phiS0', lo=0, hi=1, lo_strict=True)
            phiR0 = eng.real('phiR0', lo=0, hi=1)
            kw = dict(Sk0=Sk0, phiS0=phiS0, phiR0=phiR0)
        psihat = lambda x: sum(Pk[k] * Sk0[k] * x ** k for k in Pk)
        psihatP = lambda x: sum(k * Pk[k] * Sk0[k] * x ** (k - 1) for k in Pk if k)
        pS = phiS0 if phiS0 is not None else psihatP(1) / sum(k * Pk[k] for k in Pk)

        def g(w):
            return gamma / (gamma + tau) + tau * pS * psihatP(w) / (psihatP(1) * (gamma + tau)) + tau * phiR0 / (gamma + tau)
        prover = odex.IdProver(list(eng.pc))
        omega = gamma / (gamma + tau)
        ok = True
        for its in range(0, cfg['its'] + 1):
            st, got = h.call(an.Attack_rate_cts_time, Pk, tau, gamma, number_its=its, **kw)
            if st == 'exc':
                h.fail('attack-rate-iteration:' + type(got).__name__, {'exception': repr(got)[:300]})
                return None
            good, m = prover.equal(got, 1 - psihat(omega))
            if not good:
                ok = False
                h.record_failure('attack-rate-iteration', {'iterations': its, 'got': show(got)[:200], 'reference': show(1 - psihat(omega))[:200]}, odex.model_values(m))
                break
            omega = g(omega)
        if ok:
            h.require('attack-rate-iteration', True)
        # rest points of the real EBCM right-hand side = fixed points of g; there I = 0 gives R/N = 1 - psihat(theta)
        theta = eng.real('theta', lo=0, hi=1, lo_strict=True)
        N = eng.real('N', lo=0, lo_strict=True)
        R = eng.real('R', lo=0)
        f = an._dEBCM_(np.array([theta, R], dtype=object), 0, N, tau, gamma, psihat, psihatP, pS, phiR0)
        good, m = prover.equal(f[0], (tau + gamma) * (g(theta) - theta))
        good2, m2 = prover.equal(f[1], gamma * (N - N * psihat(theta) - R))
        if good and good2:
            h.require('ebcm-rest-points', True)
        else:
            h.record_failure('ebcm-rest-points', {'dtheta': show(f[0])[:200], '(tau+gamma)(g(theta)-theta)': show((tau + gamma) * (g(theta) - theta))[:200], 'dR_ok': good2}, odex.model_values(m or m2))
        return None
    finally:
        eng.div_guard = True
        odex.uninstall(an)


def run_final_discrete(h, cfg):
    import EoN.analytic as an
    eng = symx.ENG
    eng.div_guard = False
    odex.install(an, odex.FlowStub())
    try:
        K = cfg['K']
        p = eng.real('p', lo=0, hi=1, lo_strict=True)
        N = eng.real('N', lo=0, lo_strict=True)
        Pk = {k: eng.real('P%d' % k, lo=0, lo_strict=True) for k in range(0 if cfg.get('k0') else 1, K + 1)}
        if cfg['kind'] == 'rho':
            rho = eng.real('rho', lo=0, hi=1, lo_strict=True, hi_strict=True)
            Sk0 = {k: 1 - rho for k in Pk}
            kw = dict(rho=rho)
            phiS0, phiR0 = None, 0
        else:
            Sk0 = {k: eng.real('s%d' % k, lo=0, hi=1, lo_strict=True) for k in Pk}
            phiS0 = eng.real('phiS0', lo=0, hi=1, lo_strict=True)
            phiR0 = eng.real('phiR0', lo=0, hi=1)
            kw = dict(Sk0=Sk0, phiS0=phiS0, phiR0=phiR0)
        psihat = lambda x: sum(Pk[k] * Sk0[k] * x ** k for k in Pk)
        psihatP = lambda x: sum(k * Pk[k] * Sk0[k] * x ** (k - 1) for k in Pk if k)
        pS = phiS0 if phiS0 is not None else psihatP(1) / sum(k * Pk[k] for k in Pk)
        prover = odex.IdProver(list(eng.pc))
        its = cfg['its']
        R0 = eng.real('R0', lo=0)
        st, dyn = h.call(an.EBCM_discrete, N, psihat, psihatP, p, pS, phiR0=phiR0, R0=R0, tmin=0, tmax=its, return_full_data=True)
        if st == 'exc':
            h.fail('discrete-final-size:' + type(dyn).__name__, {'exception': repr(dyn)[:300]})
            return None
        t, S, I, R, theta = [list(x) for x in dyn]
        ok = len(t) == its + 1
        bad = None
        for k in range(its + 1):
            st, ar = h.call(an.Attack_rate_discrete, Pk, p, number_its=k, **kw)
            if st == 'exc':
                h.fail('discrete-final-size:' + type(ar).__name__, {'exception': repr(ar)[:300]})
                return None
            g1, m1 = prover.equal(ar, 1 - psihat(theta[k]))           # same theta iteration
            g2, m2 = prover.equal(S[k], N * psihat(theta[k]))
            g3, m3 = prover.equal(S[k] + I[k] + R[k], N)
            g4, m4 = (True, None) if k == its else prover.equal(R[k + 1], R[k] + I[k])
            if not (g1 and g2 and g3 and g4):
                ok = False
                bad = (k, {'attack_rate=1-psihat(theta_k)': g1, 'S=N psihat(theta)': g2, 'S+I+R=N': g3, 'R(t+1)=R(t)+I(t)': g4}, m1 or m2 or m3 or m4)
                break
        if ok:
            h.require('discrete-final-size', True)
        else:
            h.record_failure('discrete-final-size', {'step': bad[0] if bad else None, 'which': bad[1] if bad else 'length'}, odex.model_values(bad[2]) if bad else {})
        return None
    finally:
        eng.div_guard = True
        odex.uninstall(an)


def run_final_graph(h, cfg):
    """the *_from_graph variants hand the direct functions what an independent reference computes"""
    import EoN.analytic as an
    eng = symx.ENG
    eng.div_guard = False
    odex.install(an, odex.FlowStub())
    try:
        G = graphs.make(cfg['graph'])
        N = G.order()
        deg = dict(G.degree())
        tau, gamma = eng.real('tau', lo=0, lo_strict=True), eng.real('gamma', lo=0, lo_strict=True)
        p = eng.real('p', lo=0, hi=1, lo_strict=True)
        ks = sorted(set(deg.values()))
        Pk = {k: Fr(sum(1 for v in G if deg[v] == k), N) for k in ks}
        if cfg['ic'] == 'rho':
            rho = eng.real('rho', lo=0, hi=1, lo_strict=True, hi_strict=True)
            kw = dict(rho=rho)
            Sk0 = {k: 1 - rho for k in ks}
            psihatP1 = sum(k * Pk[k] * Sk0[k] for k in ks)
            phiS0 = psihatP1 / sum(k * Pk[k] for k in ks)
            phiR0 = 0
        else:
            I0, R0 = [0], [N - 1]
            kw = dict(initial_infecteds=I0, initial_recovereds=R0)
            st_ = {v: ('I' if v in I0 else 'R' if v in R0 else 'S') for v in G}
            Sk0 = {k: Fr(sum(1 for v in G if deg[v] == k and st_[v] == 'S'), sum(1 for v in G if deg[v] == k)) for k in ks}
            SX = sum(deg[v] for v in G if st_[v] == 'S')
            phiS0 = Fr(sum(1 for u in G for v in G[u] if st_[u] == 'S' and st_[v] == 'S'), SX)
            phiR0 = Fr(sum(1 for u in G for v in G[u] if st_[u] == 'S' and st_[v] == 'R'), SX)
        psihat = lambda x: sum(Pk[k] * Sk0[k] * x ** k for k in ks)
        psihatP = lambda x: sum(k * Pk[k] * Sk0[k] * x ** (k - 1) for k in ks)
        prover = odex.IdProver(list(eng.pc))
        ok = True
        for its in (0, 1, 2):
            st, a = h.call(an.Attack_rate_cts_time_from_graph, G, tau, gamma, number_its=its, **kw)
            if st == 'exc':
                h.fail('from-graph=direct:' + type(a).__name__, {'function': 'Attack_rate_cts_time_from_graph', 'exception': repr(a)[:300]})
                return None
            om = gamma / (gamma + tau)
            for _ in range(its):
                om = gamma / (gamma + tau) + tau * phiS0 * psihatP(om) / (psihatP(1) * (gamma + tau)) + tau * phiR0 / (gamma + tau)
            g1, m1 = prover.equal(a, 1 - psihat(om))
            st, b = h.call(an.Attack_rate_discrete_from_graph, G, p, number_its=its, **kw)
            if st == 'exc':
                h.fail('from-graph=direct:' + type(b).__name__, {'function': 'Attack_rate_discrete_from_graph', 'exception': repr(b)[:300]})
                return None
            th = 1
            for _ in range(its):
                th = 1 - p + p * (phiR0 + phiS0 * psihatP(th) / psihatP(1))
            g2, m2 = prover.equal(b, 1 - psihat(th))
            if not (g1 and g2):
                ok = False
                h.record_failure('from-graph=direct', {'iterations': its, 'cts_ok': g1, 'discrete_ok': g2, 'cts': show(a)[:150], 'discrete': show(b)[:150]}, odex.model_values(m1 or m2))
                break
        if ok:
            h.require('from-graph=direct', True)
        return None
    finally:
        eng.div_guard = True
        odex.uninstall(an)


def run_path(h, cfg):
    fam = cfg['family']
    if fam == 'tree':
        return run_tree(h, cfg)
    if fam == 'triangle':
        return run_tree(h, cfg, expect_mismatch=True)
    return {'tau0': run_tau0, 'gamma0': run_gamma0, 'final-cts': run_final_cts, 'final-discrete': run_final_discrete, 'final-graph': run_final_graph}[fam](h, cfg)


def _num(values, k, default):
    try:
        return float(Fr(str((values or {}).get(k))))
    except Exception:
        return default


def replay_concrete(cfg, kind, values, decisions):
    """numeric replay on the real code with the real integrator"""
    import EoN
    import EoN.analytic as an
    taylor.uninstall(an)
    odex.uninstall(an)
    fam = cfg['family']
    tau, gamma = _num(values, 'tau', 1.2), _num(values, 'gamma', 0.7)
    if fam in ('tree', 'triangle'):
        from scipy.linalg import expm
        G = graphs.make(cfg['graph'])
        nodes = list(G.nodes())
        N = len(nodes)
        kw = dict(tmin=0, tmax=3, tcount=7, return_full_data=True)
        tw = lambda a, b: 1.0
        rw = lambda a: 1.0
        if cfg['weighted']:
            for i, (u, v) in enumerate(G.edges()):
                G.edges[u, v]['tw'] = _num(values, 'w_%s_%s' % (u, v), 1.0 + 0.5 * i)
            for u in nodes:
                G.nodes[u]['rw'] = _num(values, 'nw_%s' % (u,), 1.0 + 0.25 * u)
            kw.update(transmission_weight='tw', recovery_weight='rw')
            tw = lambda a, b: G.edges[a, b]['tw']
            rw = lambda a: G.nodes[a]['rw']
        if cfg['R0']:
            kw['initial_recovereds'] = list(cfg['R0'])
        if cfg.get('unrelated_weight_attr'):
            for i, (u, v) in enumerate(G.edges()):
                G.edges[u, v]['weight'] = 2 + i
        if cfg.get('nodelist'):
            kw['nodelist'] = list(cfg['nodelist'])      # (the replay compares population totals, which do not depend on the order)
        try:
            ret = EoN.SIR_pair_based_pure_IC(G, tau, gamma, list(cfg['I0']), **kw)
        except Exception as e:
            return {'reproduced': kind.startswith('no-exception'), 'concrete_detail': {'exception': repr(e)[:200]}}
        states = list(itertools.product('SIR', repeat=N))
        sidx = {s: i for i, s in enumerate(states)}
        Q = np.zeros((len(states), len(states)))
        for s in states:
            for i, n in enumerate(nodes):
                if s[i] == 'I':
                    s2 = s[:i] + ('R',) + s[i + 1:]
                    Q[sidx[s2], sidx[s]] += gamma * rw(n)
                    Q[sidx[s], sidx[s]] -= gamma * rw(n)
                    for nb in G[n]:
                        j = nodes.index(nb)
                        if s[j] == 'S':
                            s3 = s[:j] + ('I',) + s[j + 1:]
                            Q[sidx[s3], sidx[s]] += tau * tw(n, nb)
                            Q[sidx[s], sidx[s]] -= tau * tw(n, nb)
        p0 = np.zeros(len(states))
        p0[sidx[tuple('I' if n in cfg['I0'] else 'R' if n in cfg['R0'] else 'S' for n in nodes)]] = 1
        worst = 0.0
        for ti, t in enumerate(np.asarray(ret[0], dtype=float)):
            pt = expm(Q * t) @ p0
            Sx = sum(pt[sidx[s]] * s.count('S') for s in states)
            Ix = sum(pt[sidx[s]] * s.count('I') for s in states)
            worst = max(worst, abs(float(ret[1][ti]) - Sx), abs(float(ret[2][ti]) - Ix))
        return {'reproduced': worst > 1e-5, 'concrete_detail': {'max_abs_difference_to_master_equation': worst}, 'how': 'real integrator vs matrix exponential of the 3^N-state chain'}
    if fam in ('tau0', 'gamma0'):
        G = graphs.make(cfg['graph'])
        rho = float(Fr(cfg['rho']))
        N = G.order()
        if fam == 'tau0':
            r = getattr(EoN, cfg['entry'])(G, 0.0, gamma, rho=rho, tmin=0, tmax=3, tcount=7)
            t = np.asarray(r[0], dtype=float)
            if cfg['entry'].startswith('SIS'):
                dS = float(np.max(np.abs(np.asarray(r[1], dtype=float) - (N - rho * N * np.exp(-gamma * t)))))
            else:
                dS = float(np.max(np.abs(np.asarray(r[1], dtype=float) - (1 - rho) * N)))
            dI = float(np.max(np.abs(np.asarray(r[2], dtype=float) - rho * N * np.exp(-gamma * t))))
            return {'reproduced': max(dS, dI) > 2e-5, 'concrete_detail': {'S_dev': dS, 'I_dev': dI}}
        a = getattr(EoN, cfg['pair'][0])(G, tau, 0.0, rho=rho, tmin=0, tmax=3, tcount=7)
        b = getattr(EoN, cfg['pair'][1])(G, tau, 0.0, rho=rho, tmin=0, tmax=3, tcount=7)
        d = float(np.max(np.abs(np.asarray(a[1], dtype=float) - np.asarray(b[1], dtype=float))))
        return {'reproduced': d > 2e-5, 'concrete_detail': {'max_abs_difference_of_S': d}}
    # final-size identities: evaluate numerically at the model
    K = cfg.get('K', 3)
    Pk = {k: _num(values, 'P%d' % k, 1.0 / K) for k in range(0 if cfg.get('k0') else 1, K + 1)}
    rho = _num(values, 'rho', 0.2)
    p_ = _num(values, 'p', 0.4)
    if fam in ('final-cts', 'final-discrete'):
        worst = 0.0
        detail = {}
        for its in range(0, cfg['its'] + 1):
            if cfg['kind'] == 'rho':
                Sk0 = {k: 1 - rho for k in Pk}
                kw = dict(rho=rho)
                phiS0, phiR0 = None, 0.0
            else:
                Sk0 = {k: _num(values, 's%d' % k, 0.8 - 0.1 * k) for k in Pk}
                phiS0, phiR0 = _num(values, 'phiS0', 0.6), _num(values, 'phiR0', 0.1)
                kw = dict(Sk0=Sk0, phiS0=phiS0, phiR0=phiR0)
            psihat = lambda x: sum(Pk[k] * Sk0[k] * x ** k for k in Pk)
            psihatP = lambda x: sum(k * Pk[k] * Sk0[k] * x ** (k - 1) for k in Pk if k)
            pS = phiS0 if phiS0 is not None else psihatP(1) / sum(k * Pk[k] for k in Pk)
            if fam == 'final-cts':
                got = an.Attack_rate_cts_time(Pk, tau, gamma, number_its=its, **kw)
                om = gamma / (gamma + tau)
                for _ in range(its):
                    om = gamma / (gamma + tau) + tau * pS * psihatP(om) / (psihatP(1) * (gamma + tau)) + tau * phiR0 / (gamma + tau)
                want = 1 - psihat(om)
            else:
                got = an.Attack_rate_discrete(Pk, p_, number_its=its, **kw)
                th = 1.0
                for _ in range(its):
                    th = 1 - p_ + p_ * (phiR0 + pS * psihatP(th) / psihatP(1))
                want = 1 - psihat(th)
            if abs(got - want) > worst:
                worst, detail = abs(got - want), {'iterations': its, 'got': got, 'reference': want}
        return {'reproduced': worst > 1e-9, 'concrete_detail': detail, 'how': 'real function evaluated at the counterexample'}
    if fam == 'final-graph':
        G = graphs.make(cfg['graph'])
        N = G.order()
        deg = dict(G.degree())
        ks = sorted(set(deg.values()))
        Pk = {k: sum(1 for v in G if deg[v] == k) / N for k in ks}
        if cfg['ic'] == 'rho':
            kw = dict(rho=rho)
            Sk0 = {k: 1 - rho for k in ks}
            phiS0 = sum(k * Pk[k] * Sk0[k] for k in ks) / sum(k * Pk[k] for k in ks)
            phiR0 = 0.0
        else:
            I0, R0 = [0], [N - 1]
            kw = dict(initial_infecteds=I0, initial_recovereds=R0)
            st_ = {v: ('I' if v in I0 else 'R' if v in R0 else 'S') for v in G}
            Sk0 = {k: sum(1 for v in G if deg[v] == k and st_[v] == 'S') / sum(1 for v in G if deg[v] == k) for k in ks}
            SX = sum(deg[v] for v in G if st_[v] == 'S')
            phiS0 = sum(1 for u in G for v in G[u] if st_[u] == 'S' and st_[v] == 'S') / SX
            phiR0 = sum(1 for u in G for v in G[u] if st_[u] == 'S' and st_[v] == 'R') / SX
        psihat = lambda x: sum(Pk[k] * Sk0[k] * x ** k for k in ks)
        psihatP = lambda x: sum(k * Pk[k] * Sk0[k] * x ** (k - 1) for k in ks)
        worst, detail = 0.0, {}
        for its in (0, 1, 2, 3):
            try:
                a = an.Attack_rate_cts_time_from_graph(G, tau, gamma, number_its=its, **kw)
                b = an.Attack_rate_discrete_from_graph(G, p_, number_its=its, **kw)
            except Exception as e:
                return {'reproduced': True, 'concrete_detail': {'exception': repr(e)[:200]}}
            om = gamma / (gamma + tau)
            th = 1.0
            for _ in range(its):
                om = gamma / (gamma + tau) + tau * phiS0 * psihatP(om) / (psihatP(1) * (gamma + tau)) + tau * phiR0 / (gamma + tau)
                th = 1 - p_ + p_ * (phiR0 + phiS0 * psihatP(th) / psihatP(1))
            for nm, got, want in (('cts', a, 1 - psihat(om)), ('discrete', b, 1 - psihat(th))):
                if abs(got - want) > worst:
                    worst, detail = abs(got - want), {'which': nm, 'iterations': its, 'got': got, 'reference': want}
        return {'reproduced': worst > 1e-9, 'concrete_detail': detail, 'how': 'real functions evaluated at the counterexample'}
    return {'reproduced': False, 'why': 'no numeric replay for %s' % fam}

"""Confirm a seeded change produced by a sub-agent and run the checks against it.

  python3 tools_seeded.py <tag> [--checks C01,C04] [--tests "-k name"]      e.g. C01a

Reads /tmp/seed_out/<Cxx>/<tag>_patch.diff, _demo.py, _meta.json.  Steps (all in scratch worktrees outside /repo and /verif):
 1. the patch applies to a clean worktree of /repo HEAD and EoN still imports;
 2. the demo FAILS with the patch and PASSES without it;
 3. (optional) the named pinned tests still pass with the patch;
 4. apply the patch to /repo, run the named checks (default: the property's own), undo it straight afterwards.
Writes /verif/seeded/<tag>/{patch.diff,demo.py,meta.json}.
"""
import sys, os, json, subprocess, shutil, tempfile, time

VERIF = os.path.dirname(os.path.abspath(__file__))


def sh(cmd, cwd=None, timeout=3600, env=None):
    e = dict(os.environ)
    e['PYTHONDONTWRITEBYTECODE'] = '1'
    if env:
        e.update(env)
    p = subprocess.run(cmd, shell=True, cwd=cwd, stdout=subprocess.PIPE, stderr=subprocess.STDOUT, timeout=timeout, env=e)
    return p.returncode, p.stdout.decode(errors='replace')


def main():
    tag = sys.argv[1]
    round2 = not tag.startswith('C')
    src = '/tmp/seed_out2' if round2 else '/tmp/seed_out/%s' % tag[:3]
    prop = json.load(open(os.path.join(src, tag + '_meta.json')))['property'] if round2 else tag[:3]
    checks = [prop]
    tests = None
    if '--checks' in sys.argv:
        checks = sys.argv[sys.argv.index('--checks') + 1].split(',')
    if '--tests' in sys.argv:
        tests = sys.argv[sys.argv.index('--tests') + 1]
    patch = os.path.join(src, tag + '_patch.diff')
    demo = os.path.join(src, tag + '_demo.py')
    meta = json.load(open(os.path.join(src, tag + '_meta.json'))) if os.path.exists(os.path.join(src, tag + '_meta.json')) else {}
    out = {'tag': tag, 'property': prop, 'agent_meta': meta, 'ran': []}
    wt = tempfile.mkdtemp(prefix='seedwt_', dir='/tmp')
    os.rmdir(wt)
    rc, o = sh('git -C /repo worktree add -q --detach %s HEAD' % wt)
    try:
        rc, o = sh('git apply --check %s' % patch, cwd=wt)
        out['applies'] = (rc == 0)
        if rc != 0:
            out['error'] = o[-500:]
            return finish(out, patch, demo)
        rc0, o0 = sh('/venv/bin/python %s' % demo, cwd=wt, timeout=300, env={'PYTHONPATH': wt})
        out['demo_without_patch'] = rc0
        sh('git apply %s' % patch, cwd=wt)
        rci, oi = sh('/venv/bin/python -c "import EoN; print(EoN.__file__)"', cwd=wt)
        out['imports_with_patch'] = (rci == 0 and wt in oi)
        rc1, o1 = sh('/venv/bin/python %s' % demo, cwd=wt, timeout=300, env={'PYTHONPATH': wt})
        out['demo_with_patch'] = rc1
        out['demo_tail_with_patch'] = o1[-400:]
        out['demo_confirmed'] = (rc0 == 0 and rc1 != 0)
        if tests:
            rct, ot = sh('/venv/bin/python -m pytest -q -p no:cacheprovider EoN/tests %s --timeout=600' % tests, cwd=wt, timeout=2400)
            out['pinned_tests'] = {'selector': tests, 'rc': rct, 'tail': ot[-300:]}
        out['ran'].append('worktree %s: git apply --check; demo without/with patch%s' % (wt, '; pytest ' + tests if tests else ''))
        # run the checks against the patched tree.  Default: the scratch worktree through EON_REPO (the checks import the
        # repository from $EON_REPO, default /repo), so that long background runs on /repo are not disturbed; with --in-repo the
        # patch is applied to /repo itself (git -C /repo apply) and undone straight afterwards (git -C /repo checkout -- .)
        in_repo = '--in-repo' in sys.argv
        env = {'VERIF_EVIDENCE_DIR': os.path.join(VERIF, 'evidence-other-tree')}     # never overwrite the real tree's evidence
        if in_repo:
            st, o = sh('git -C /repo status --porcelain --untracked-files=no')
            if o.strip():
                out['error'] = '/repo has local modifications; not applying'
                return finish(out, patch, demo)
            sh('git -C /repo apply %s' % patch)
        else:
            env['EON_REPO'] = wt
        try:
            res = {}
            for c in checks:
                t0 = time.time()
                rc, o = sh('./check %s --tier quick' % c, cwd=VERIF, timeout=3000, env=env)
                lines = [l for l in o.splitlines() if l.startswith('VIOLATION') or l.startswith('  entry=') or l.startswith('INCONCLUSIVE') or l.startswith('KNOWN')]
                lines.sort(key=lambda l: 0 if l.startswith('VIOLATION') else 1 if l.startswith('  entry=') else 2)      # (stable: each VIOLATION line is followed by its detail line)
                res[c] = {'exit': rc, 'seconds': round(time.time() - t0, 1), 'lines': [l[:300] for l in lines[:4]]}
            out['checks'] = res
            out['detected_by'] = [c for c, r in res.items() if r['exit'] == 1]
            out['ran'].append(('git -C /repo apply; ' if in_repo else 'EON_REPO=<patched scratch worktree> ') + ', '.join('./check %s --tier quick' % c for c in checks) + ('; git -C /repo checkout -- .' if in_repo else ''))
        finally:
            if in_repo:
                sh('git -C /repo checkout -- .')
    finally:
        sh('git -C /repo worktree remove --force %s' % wt)
        shutil.rmtree(wt, ignore_errors=True)
    return finish(out, patch, demo)


def finish(out, patch, demo):
    d = os.path.join(VERIF, 'seeded', out['tag'])
    os.makedirs(d, exist_ok=True)
    if os.path.exists(patch):
        shutil.copy(patch, os.path.join(d, 'patch.diff'))
    if os.path.exists(demo):
        shutil.copy(demo, os.path.join(d, 'demo.py'))
    m = {'breaks_property': out['property'], 'what': out.get('agent_meta', {}).get('what'), 'needs_to_manifest': out.get('agent_meta', {}).get('needs_to_manifest'),
         'files': out.get('agent_meta', {}).get('files'), 'confirmed': {k: out.get(k) for k in ('applies', 'imports_with_patch', 'demo_without_patch', 'demo_with_patch', 'demo_confirmed', 'pinned_tests')},
         'checks': out.get('checks'), 'detected_by': out.get('detected_by'), 'what_i_ran': out.get('ran'), 'error': out.get('error')}
    json.dump(m, open(os.path.join(d, 'meta.json'), 'w'), indent=1)
    print(json.dumps({k: m[k] for k in ('breaks_property', 'what', 'detected_by', 'error')}, indent=1)[:1500])
    print('confirmed:', m['confirmed'])
    for c, r in (m['checks'] or {}).items():
        print(c, r['exit'], r['seconds'], r['lines'][:2])


if __name__ == '__main__':
    main()

ENGINE = {}
NOT_APPLICABLE = {}
_SYMX = 'symbolic execution of the real Python code with z3 (symx): bounded, exhaustive over draw outcomes'
CHECKS['C01'] = (_SYMX + '; probability masses extracted from branch conditions, law identities decided by z3',
                 'bounded symbolic model checking of Gillespie_SIR against the reference CTMC: for every reachable state of every graph in the bound z3 proves clock rate = total rate and event mass = rate/total for all parameter values',
                 'floats as reals; graphs <= 3 (4 thorough) nodes; weighted selection primitive replaced by a logged weighted choice justified by C16; lemmas L1-L4', 'DESIGN.md 6/C01')
CHECKS['C04'] = (_SYMX + '; well-formedness assertions proved on every path',
                 'every feasible path of every simulator configuration in the bound satisfies the well-formedness obligations for all values of rates, weights, tmin, tmax and draws',
                 'floats as reals; precondition tmin < tmax; graphs <= 3 (4) nodes; event bounds for SIS-type runs', 'DESIGN.md 6/C04')
CHECKS['C16'] = (_SYMX + '; inductive step over an arbitrary invariant-satisfying pre-state; scripted long rejection runs (one path, draws steered by assumptions); IEEE binary64 via z3 FloatingPoint (bit-precise) and the standard rounding-error model over the reals',
                 'one-step induction: from any candidate set satisfying the representation invariant, any single operation (insert, replace, increment, remove, random_removal, recompute) re-establishes it and choose_random accepts candidate i with probability exactly w_i/max_weight in [0,1] (z3, all weights symbolic); after 150 (400) forced rejections the result is still an accepted positive-weight candidate; on doubles the total of an emptied set is exactly 0 and the running total stays within 2n*2^-53*(sum added) of the exact sum; unweighted variant uniform',
                 'reals for the inductive part; doubles: histories of <= 6 operations, weights in [2^-10, 2^10]; <= 3 (4) items in the symbolic pre-state; rejection-sampling lemma L3', 'DESIGN.md 6/C16, 2.4')
CHECKS['C05'] = (_SYMX + '; initial-state assertions, container-style / positional / wrapper equivalence under replayed draws',
                 'every simulator and wrapper, on every configuration of the bound and every path, starts from exactly the requested state; rho requests int(round(N*rho)) nodes (z3 over symbolic rho); conflicting arguments raise EoNError',
                 'floats as reals; graphs <= 3 (4) nodes; strictly positive delays/durations (zero values are tie cases covered by C11)', 'DESIGN.md 6/C05')
CHECKS['C03'] = (_SYMX + '; probability masses extracted from branch conditions, law identities decided by z3',
                 'bounded symbolic model checking of Gillespie_simple_contagion against the CTMC derived from the specification: per reachable state clock rate = total rate, every positive-probability event is an enabled transition with mass rate/total, none missing, one node changes per row',
                 'floats as reals; 5 (7) specifications, graphs and digraphs on <= 3 nodes, <= 3 (4) events; weighted candidate sets via their abstraction (C16)', 'DESIGN.md 6/C03')
CHECKS['C11'] = (_SYMX + '; first-passage-percolation characterisation proved per path against a declarative reference',
                 'for every delay/duration table (symbolic, ties allowed) and every order in which the queue meets simultaneous events, infection times are shortest usable path lengths, recoveries follow durations, infectors lie on shortest paths, nothing at/after tmax; percolation builders and get_infected_nodes match their rule; myQueue order',
                 'floats as reals; graphs <= 3 (4) nodes; L1', 'DESIGN.md 6/C11')
CHECKS['C09'] = (_SYMX + '; causal-validity assertions on transmissions vs node histories proved on every path',
                 'on every path of every full-data simulator configuration in the bound the transmission list is ordered, along edges, from an infectious source to a just-susceptible target, in bijection with infections, sourceless only for initial nodes, and (SIR) a forest',
                 'floats as reals; delays > 0 (a zero delay at tmin is unobservable in histories), ties otherwise allowed; graphs <= 3 (4) nodes; event bounds', 'DESIGN.md 6/C09')
CHECKS['C10'] = (_SYMX + '; two runs per path with a replaying random source, step-function equality and status-at-symbolic-query-time proved by z3',
                 'on every path both return modes consume the same draws and describe the same epidemic: summary = arrays as step functions, accessors = summary, histories well-formed, node_status/get_statuses correct for an arbitrary symbolic query time, subset summaries correct',
                 'floats as reals; graphs <= 3 (4) nodes; event bounds; discrete-time simulators under a deterministic rule', 'DESIGN.md 6/C10')
CHECKS['C13'] = (_SYMX + '; plain SIS reference semantics proved per path',
                 'for every duration / delay-list rule (symbolic values, all interleavings of attempts, recoveries and reinfections within the bound) the history equals the plain reference: attempts infect iff the target is susceptible at that instant, recoveries follow durations, nothing else, nothing at/after tmax',
                 'floats as reals; graphs K2, P3 (K3, P4); <= 3 (4) episodes; delay lists ascending and before recovery; distinct event times', 'DESIGN.md 6/C13')
CHECKS['C02'] = (_SYMX + '; Gillespie_SIS: law identities from branch conditions; fast_SIS: Poisson coupling against the plain reference semantics',
                 'Gillespie_SIS: per reachable state (<= E events) clock rate and event masses equal the SIS chain for all parameters; fast_SIS: on every path the history equals the plain contact-process semantics on harness-owned Poisson streams, draws have the reference rates, unsampled contacts provably irrelevant',
                 'floats as reals; graphs <= 3 (4) nodes; <= 3 (5) events / <= 3 (4) episodes; L2 memorylessness; generic position of contact times', 'DESIGN.md 6/C02')
CHECKS['C15'] = (_SYMX + '; reference chain maintained from the chooser answers, law identities decided by z3',
                 'for four user-model families, per reachable state: clock rate = sum of user rates on the current statuses, candidate weights = those rates, callbacks always see the current statuses, new status = chooser answer, stop iff all rates vanish, counts track statuses',
                 'floats as reals; graphs <= 3 (4) nodes; <= 3 (4) events; weighted candidate set via its abstraction (C16)', 'DESIGN.md 6/C15')
CHECKS['C12'] = (_SYMX + '; BFS characterisation under all deterministic rules; trajectory masses vs Reed-Frost kernels as polynomial identities in symbolic p',
                 'discrete_SIR: for every contact digraph and recovery-test outcome on the graphs of the bound, infection generation = BFS distance, one infectious step, conservation, horizon; basic/percolation-based SIR and basic SIS: total probability of every node-state trajectory equals the product of Reed-Frost / discrete-SIS kernels for all p; percolate_network: one draw per edge, kept iff draw < p',
                 'floats as reals; graphs <= 3 (4) nodes; SIS <= 2 (3) steps', 'DESIGN.md 6/C12')
CHECKS['C17'] = (_SYMX + '; rule-vs-edge obligations with symbolic xi/zeta/delays decided by z3; estimator outputs against an independent component reference on every digraph of the bound',
                 'builders: edge u->v iff the supplied rule holds for all symbolic rule inputs; estimators: on every digraph with <= 3 (4) nodes the output is the in/out-component fraction of a largest SCC and within [0,1]; estimate_SIR_prob_size = largest-component fraction for every outcome of the edge draws',
                 'floats as reals; parts (b)-(d) are exhaustive engine-driven enumeration with a small solver share (stated in DESIGN section 8)', 'DESIGN.md 6/C17')
CHECKS['C18'] = (_SYMX + '; repeat-call pairs under a replaying random source; set iteration order as an engine choice on the AST-transformed module; all other entropy sources poisoned',
                 'for every simulator configuration in the bound and every path: a second call with the same draw values consumes the same draws with the same arguments and returns identical terms; no other source of randomness or time is touched; continuous-time simulators give identical outputs under every iteration order of every set (superset of all hash seeds) with string labels',
                 'floats as reals; graphs P3 (K3); event bounds; dict order is insertion order (language guarantee)', 'DESIGN.md 6/C18')
_ODEX = 'symbolic evaluation of the real ODE code on z3 terms (odex) with a flow stub for the integrator'
ENGINE['C06'] = 'odex'
CHECKS['C06'] = (_ODEX + '; row-0 / linspace identities, conservation via identity-or-vanishing-Lie-derivative, monotonicity as sign conditions, all decided by z3',
                 'for every ODE entry point reachable through the *_from_graph / node-level wrappers on the graphs of the bound, with symbolic tau, gamma, rho, tmin, tmax: times, row 0 (incl. documented full-data series), conservation at an arbitrary flow state and SIR monotonicity on the stated region hold for all parameter values; all consistent initial conditions accepted',
                 'floats as reals; L5/L6 (integrator = exact flow, started at tmin: checked) trusted; graphs <= 5 nodes incl. an isolated node, degree support K <= 3 (4); [0,N] range not claimed; 8 open findings (no susceptible stub at tmin) listed in known_findings.json', 'DESIGN.md 6/C06, 7')
ENGINE['C20'] = 'symx+odex'
CHECKS['C20'] = (_SYMX + ' for subsample/get_time_shift on lists with symbolic entries; odex identities and symbolic differentiation for the generating-function helpers and estimate_R0',
                 'subsample / get_time_shift equal their step-function references for all real-valued entries of lists up to the length bound; psi(1), psi\'(1), psi\'\'(1), the derivative chain and R0 = T<k^2-k>/<k> hold for all symbolic P_k, x, tau, gamma; get_Pk / get_Pnk normalisation on every graph with <= 4 nodes',
                 'floats as reals; list lengths <= 3 (4); K <= 4 (6)', 'DESIGN.md 6/C20')
ENGINE['C19'] = 'symx+odex'
CHECKS['C19'] = (_SYMX + ' / odex; argument snapshots compared on every path, second call with the same objects, flow-stub arguments and right-hand sides compared as terms',
                 'on every path of every configuration in the bound the graph, initial-condition containers, specification graphs and numeric array arguments are unchanged after the call; the same call repeated with the same objects succeeds, and ODE model functions hand identical (X0, args, right-hand side) to the integrator',
                 'floats as reals; the frame condition is largely independent of numeric values, so the solver share is small (DESIGN section 8)', 'DESIGN.md 6/C19')
ENGINE['C14'] = 'symx+odex'
CHECKS['C14'] = (_ODEX + ' on G and a relabelled, re-ordered copy: identity of the integrator inputs (degree-based) / equivariance of the vector field for all states (node-level), decided by z3; ' + 'symx runs of the deterministic-rule simulators with tables transported by the relabelling',
                 'for every entry point and relabelling in the bound: degree-based wrappers hand identical (X0, right-hand side) to the integrator; node-level models satisfy f_G\'(Px) = P f_G(x) for all x and P X0 = X0\'; deterministic-rule simulators give identical per-node histories up to the relabelling on every path',
                 'floats as reals; graphs P3, paw, S3 (irr5); 3 relabelings (all for n=3 in thorough); explicit nodelist in another order than G.nodes() for the node-level models; L5', 'DESIGN.md 6/C14')
ENGINE['C07'] = 'odex'
CHECKS['C07'] = ('Taylor-mode execution of the real public entry points on exact power series (Picard iteration through the real right-hand sides) with z3 deciding coefficient equality for all tau, gamma; vector-field conjugacy with all quantities symbolic decided by z3 after clearing denominators',
                 'all members of each equivalence group return S, I, R series that coincide to order m for all tau, gamma on the graphs / degree sequences of the bound (bounded statement); EBCM -> compact pairwise: D phi . f = g o phi for all states and parameters with degree support K <= 3 (4), hence equality for all t',
                 'rational arithmetic exact; rho and degree sequence enumerated in the Taylor line; order m = 6 (10); L5', 'DESIGN.md 6/C07')
ENGINE['C08'] = 'odex'
CHECKS['C08'] = ('Taylor-mode execution of the real pair-based code vs the master equation as exact polynomial series (z3 on coefficients); Taylor limits tau=0 / gamma=0; final-size relations as rational-function identities with all quantities symbolic (z3 after clearing denominators)',
                 'pair-based = master-equation expectation to order m on every tree of the bound incl. symbolic weights (triangle rejected: non-vacuous); tau=0 and gamma=0 limits for every model to order m; k iterations of the attack-rate maps = reference maps, EBCM rest points = fixed points of the attack-rate map, EBCM_discrete bookkeeping, *_from_graph = direct',
                 'bounded in the Taylor order (trees <= 4 (5) nodes, m = 6 (8)); convergence of iterations / t->infinity not claimed; L5', 'DESIGN.md 6/C08')

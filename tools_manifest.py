"""regenerate MANIFEST.json from the table below (python3 tools_manifest.py)"""
import json, os
HERE = os.path.dirname(os.path.abspath(__file__))
props = [json.loads(l) for l in open(os.path.join(HERE, 'properties.jsonl'))]
CHECKS = {
    # id: (technique, level text, level note, design ref)
}
exec(open(os.path.join(HERE, 'manifest_table.py')).read())
checks = []
na = []
for p in props:
    pid = p['id']
    if pid in CHECKS:
        tech, text, note, ref = CHECKS[pid]
        checks.append({
            'property_id': pid,
            'quick_cmd': './check %s --tier quick' % pid,
            'thorough_cmd': './check %s --tier thorough' % pid,
            'evidence_file': 'evidence/%s.json' % pid,
            'replay_cmd_template': './check %s --replay {path}' % pid,
            'engine': ENGINE.get(pid, 'symx'),
            'level_claimed': {'category': 'other', 'text': text, 'design_ref': ref},
            'level_note': note,
            'technique': tech,
        })
    else:
        na.append({'property_id': pid, 'reason': NOT_APPLICABLE.get(pid, 'check not built yet in this round (planned: DESIGN.md section 6); not claimed until it exists')})
m = {
    'version': 1,
    'setup_cmd': 'sh ./setup.sh',
    'hooks': {'guard': 'EON_VERIF', 'enable': 'no source hooks are needed: stubs and shadows are installed as module attributes from the harness (EON_VERIF=1 is exported by ./check for completeness)',
              'baseline_off_cmd': 'cd /repo && /venv/bin/python -m pytest -ra -q -p no:cacheprovider --timeout=900 --continue-on-collection-errors',
              'source_commits': [], 'add_only': True},
    'engines': [
        {'name': 'symx', 'path': 'vlib/symx.py', 'serves_properties': sorted(k for k in CHECKS if ENGINE.get(k, 'symx') in ('symx', 'symx+odex', 'symx+crosshair')),
         'kind_free_text': 'own symbolic executor for the unmodified Python simulators: z3 reals via operator overloading, solver-decided forks, DFS by re-execution, random source = engine-controlled stub; counterexamples replayed on exact rationals and floats against the real code'},
        {'name': 'odex', 'path': 'vlib/odex.py', 'serves_properties': sorted(k for k in CHECKS if 'odex' in ENGINE.get(k, '')),
         'kind_free_text': 'symbolic evaluation of the ODE right-hand sides, initial-condition builders and output tails on object arrays of z3 terms / exact power series, integrator replaced by a flow stub; identities and sign conditions decided by z3'},
    ],
    'checks': checks,
    'not_applicable': na,
    'notes': 'All checks: solver-based checking of the real code (z3). Exit 0 held / 1 replayed violation / 2 inconclusive (never reported as success). See DESIGN.md.',
}
json.dump(m, open(os.path.join(HERE, 'MANIFEST.json'), 'w'), indent=1)
print('checks:', [c['property_id'] for c in checks], 'n/a:', [x['property_id'] for x in na])
